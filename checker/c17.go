package main

import (
	"fmt"
	"go/ast"
	"go/token"
	"go/types"
	"strings"

	"golang.org/x/tools/go/cfg"
)

func init() {
	register(&propCheck{
		id:  "C17",
		run: checkC17,
		explain: "Exactly-once and promptness under every interleaving of concurrent Put calls with timer firings, for both timer-channel semantics, quantify over schedules and are not decided. Decided are the " +
			"dispatch invariants of the worker and of the hand-off, each a necessary condition: a task received by a worker meets exactly one fate (run now, or enter the heap) and what leaves the heap is " +
			"run; a task runs only under now.After(its deadline) with now read after the task was obtained; the heap orders by time.Time.Before, so its root is the earliest deadline for every time value; " +
			"after every insertion and at the end of every timer round the timer is re-armed to the root (or the heap is empty); the stop/drain/reset sequence is guarded by the drained flag, which is " +
			"maintained at the only places that change the channel's state; Put appends under the lock and then always signals, the signal channel has room for one token, and the only receive of a " +
			"token is followed by taking the whole pending slice under the lock and forwarding every element.",
		assume: []string{
			"container/heap maintains the heap property given a strict weak ordering Less",
			"time.Timer behaves as documented for the configured asynctimerchan setting",
		},
	})
}

func checkC17(p *Prog, r *Report) {
	r.rule("C17.H1", "a task received from chTask meets exactly one of {execute(), heap.Push(&tasks, task)} on every path; every heap.Pop(&tasks) result is executed; the heap is touched only through heap.Push/Pop, Len and [0]", 3)
	r.rule("C17.H2", "every execute() is dominated by now.After(<that task>.ts), now being read (time.Now() or the timer channel) after the task was received / in the same round; Less orders by ts.Before", 3)
	r.rule("C17.H3", "after heap.Push the timer is Reset(tasks[0].ts.Sub(now)) before the next select; the timer arm ends only with an empty heap or after such a Reset", 2)
	r.rule("C17.H4", "the blocking <-timer.C is guarded by !stopped && !drained, stopped := timer.Stop() just before; drained = true opens the timer arm; drained = false follows every Reset", 3)
	r.rule("C17.H7", "submitting never blocks: every send on the wake-up channel chPrependNotify is non-blocking (= C13.W8) — Put is called from inside running tasks (the session updater re-submits itself), so a Put that waits for the forwarder, which waits for that worker, stops the scheduler for good", 1)
	r.rule("C17.H6", "the deadline a task is scheduled for is the deadline it was submitted with: the ts of a timedFunc is set once, in Put, from Put's deadline parameter as it is (never reassigned, clamped or rounded), and stored nowhere else", 1)
	r.rule("C17.H8", "a scheduler always has workers: NewTimedSched starts one sched goroutine per unit of its parameter (a loop that runs exactly `parallel` times around `go ts.sched()`) and one prepend goroutine; with fewer, NewTimedSched(1) accepts tasks that nothing ever runs", 2)
	r.rule("C17.H5", "Put appends under prependLock and then always signals (non-blocking send, channel capacity >= 1); the only receive from the signal channel is followed by taking the whole slice under the lock; prepend forwards every element, leaving only on die", 5)

	sched := p.FuncByName("(*TimedSched).sched")
	prepend := p.FuncByName("(*TimedSched).prepend")
	put := p.FuncByName("(*TimedSched).Put")
	recvS := tVar(p.selfVar(sched))
	chTask := p.Field("TimedSched", "chTask")
	c := p.CFG(sched)

	// locals of sched
	var timerV, tasksV, drainedV *types.Var
	ast.Inspect(sched.Body, func(n ast.Node) bool {
		switch x := n.(type) {
		case *ast.AssignStmt:
			if x.Tok == token.DEFINE && len(x.Lhs) == 1 && len(x.Rhs) == 1 {
				if id, ok := x.Lhs[0].(*ast.Ident); ok {
					v, _ := p.Info.Defs[id].(*types.Var)
					if v != nil {
						if t := p.Term(x.Rhs[0]); t.Op == "call" && t.Obj != nil && isExtFunc(t.Obj.(*types.Func), "time", "", "NewTimer") {
							timerV = v
						}
						if t := p.Term(x.Rhs[0]); t.Op == "false" && v.Name() != "" && types.Identical(v.Type(), types.Typ[types.Bool]) && drainedV == nil {
							drainedV = v
						}
					}
				}
			}
		case *ast.ValueSpec:
			for _, nm := range x.Names {
				if v, ok := p.Info.Defs[nm].(*types.Var); ok && namedOf(v.Type()) == p.Named("timedFuncHeap") {
					tasksV = v
				}
			}
		}
		return true
	})
	if timerV == nil || tasksV == nil {
		r.bad("C17.H1", sched.Name, p.Pos(sched.Node), "worker structure", fmt.Sprintf("could not identify the worker's timer (%v) and heap (%v)", timerV != nil, tasksV != nil), "")
		return
	}
	if drainedV == nil {
		r.bad("C17.H4", sched.Name, p.Pos(sched.Node), "stop/drain/reset sequence", "the worker keeps no record of whether its timer channel has been received from, so it cannot stop, drain and reset the timer correctly: with asynctimerchan=1 a tick that fired while the worker was busy stays in the channel, the next round runs with that stale clock value and re-arms the timer too far in the future (tasks run late), or an early tick fires the new timer at once", "")
	}
	tasksT := tVar(tasksV)
	timerC := tFld(tVar(timerV), fieldOfExt(timerV.Type(), "C"))

	// the select arms
	var taskArm, timerArm *ast.CommClause
	var taskVar, nowTimer *types.Var
	ast.Inspect(sched.Body, func(n ast.Node) bool {
		cc, ok := n.(*ast.CommClause)
		if !ok || cc.Comm == nil {
			return true
		}
		as, ok := cc.Comm.(*ast.AssignStmt)
		if !ok || len(as.Lhs) != 1 || len(as.Rhs) != 1 {
			return true
		}
		t := p.Term(as.Rhs[0])
		if t.Op != "recv" {
			return true
		}
		v, _ := p.Info.Defs[as.Lhs[0].(*ast.Ident)].(*types.Var)
		switch {
		case t.Args[0].Key() == tFld(recvS, chTask).Key():
			taskArm, taskVar = cc, v
		case t.Args[0].Key() == timerC.Key():
			timerArm, nowTimer = cc, v
		}
		return true
	})
	if taskArm == nil || timerArm == nil {
		r.bad("C17.H1", sched.Name, p.Pos(sched.Node), "worker structure", "the worker's select has no arm receiving from chTask or from the timer", "")
		return
	}
	armBlock := func(cc *ast.CommClause) *cfg.Block {
		for _, b := range c.live {
			if b.Kind == cfg.KindSelectCaseBody && b.Stmt == cc {
				return b
			}
		}
		return nil
	}
	nextRound := func(b *cfg.Block) (bool, bool) { // entering any select arm = next round
		return false, b.Kind == cfg.KindSelectCaseBody
	}
	_ = nextRound
	isCallTo := func(n ast.Node, pred func(*ast.CallExpr) bool) bool {
		f := false
		inspectShallow(n, func(x ast.Node) bool {
			if call, ok := x.(*ast.CallExpr); ok && pred(call) {
				f = true
			}
			return true
		})
		return f
	}
	fExec := p.Field("timedFunc", "execute")
	fTs := p.Field("timedFunc", "ts")
	isExecOf := func(call *ast.CallExpr, who func(*Term) bool) bool {
		t := p.Term(call.Fun)
		return t.Op == "fld" && t.Obj == fExec && who(t.Args[0])
	}
	isHeapOp := func(call *ast.CallExpr, name string) bool {
		f := p.Callee(call)
		if f == nil || !isExtFunc(f, "container/heap", "", name) || len(call.Args) < 1 {
			return false
		}
		return p.Term(call.Args[0]).Key() == mk("addr", tasksT).Key()
	}
	isPopped := func(t *Term) bool {
		for t.Op == "typeassert" || t.Op == "conv" {
			t = t.Args[0]
		}
		return t.Op == "call" && t.Obj != nil && isExtFunc(t.Obj.(*types.Func), "container/heap", "", "Pop") && len(t.Args) == 1 && t.Args[0].Key() == mk("addr", tasksT).Key()
	}

	// ---- H1
	{
		ab := armBlock(taskArm)
		isFate := func(n ast.Node, _ Point) bool {
			return isCallTo(n, func(call *ast.CallExpr) bool {
				if isExecOf(call, func(t *Term) bool { return t.Op == "var" && t.Obj == taskVar }) {
					return true
				}
				return isHeapOp(call, "Push") && len(call.Args) == 2 && p.Term(call.Args[1]).Op == "var" && p.Term(call.Args[1]).Obj == taskVar
			})
		}
		// (a) no path to the next round (or return) without a fate
		res := c.FindPath(PathQuery{From: Point{ab, 0}, IsBarrier: isFate, ExitIsTarget: true, OnBlock: func(b *cfg.Block) (bool, bool) {
			return b.Kind == cfg.KindSelectCaseBody && b != ab, false
		}})
		// (b) no path from one fate to another within the round
		twice := false
		var wit []Point
		for _, pt := range c.AllPoints() {
			if n := pt.Node(); n != nil && isFate(n, pt) {
				r2 := c.FindPath(PathQuery{From: Point{pt.B, pt.I + 1}, IsTarget: isFate, OnBlock: func(b *cfg.Block) (bool, bool) {
					return false, b.Kind == cfg.KindSelectCaseBody
				}})
				if r2.Found {
					twice, wit = true, r2.Path
				}
			}
		}
		switch {
		case res.Found:
			r.bad("C17.H1", sched.Name, p.Pos(taskArm), "fate of a received task", "a path through the arm neither runs the task nor stores it in the heap: the task is lost", c.DescribePath(res.Path))
		case twice:
			r.bad("C17.H1", sched.Name, p.Pos(taskArm), "fate of a received task", "a path through the arm both runs and stores (or stores twice) the task: it runs twice", c.DescribePath(wit))
		default:
			r.ok("C17.H1", sched.Name, p.Pos(taskArm), "fate of a received task", "exactly one of execute() / heap.Push(&tasks, task) on every path")
		}
		// every Pop result is executed
		nPop := 0
		okPop := true
		ast.Inspect(sched.Body, func(n ast.Node) bool {
			call, ok := n.(*ast.CallExpr)
			if !ok || !isHeapOp(call, "Pop") {
				return true
			}
			nPop++
			// parent chain: TypeAssert -> Selector(execute) -> Call
			executed := false
			var cur ast.Node = call
			for q := p.parents[cur]; q != nil; q = p.parents[q] {
				if ce, ok := q.(*ast.CallExpr); ok && ce != call {
					executed = isExecOf(ce, isPopped)
					break
				}
				if _, ok := q.(ast.Stmt); ok {
					break
				}
			}
			if !executed {
				okPop = false
			}
			return true
		})
		r.check(okPop && nPop > 0, "C17.H1", sched.Name, p.Pos(timerArm), "fate of a task leaving the heap", "heap.Pop(&tasks).(timedFunc).execute()", "a task is removed from the heap without being run in the same expression: it is lost (or run later without a deadline test)")
		// the heap variable is used only as &tasks in heap.Push/Pop, tasks.Len(), tasks[0]
		okUse := true
		why := ""
		ast.Inspect(sched.Body, func(n ast.Node) bool {
			id, ok := n.(*ast.Ident)
			if !ok || p.Info.Uses[id] != tasksV {
				return true
			}
			switch par := p.parents[id].(type) {
			case *ast.UnaryExpr: // &tasks
				if call, ok := p.parents[par].(*ast.CallExpr); ok && (isHeapOp(call, "Push") || isHeapOp(call, "Pop")) {
					return true
				}
			case *ast.SelectorExpr:
				if par.Sel.Name == "Len" {
					return true
				}
			case *ast.IndexExpr:
				if t := p.Term(par.Index); t.IsConst() && t.Int == 0 {
					if _, isAssign := p.parents[par].(*ast.AssignStmt); !isAssign {
						return true
					}
				}
			}
			okUse = false
			why = "the heap is used at " + p.Pos(id) + " other than through heap.Push/heap.Pop, Len() and a read of [0]"
			return true
		})
		r.check(okUse, "C17.H1", sched.Name, p.Pos(sched.Node), "access to the worker's heap", "heap.Push / heap.Pop / Len / [0] only", why+": an element can be removed, replaced or reordered without being run")
	}

	// ---- H2
	{
		n := 0
		ast.Inspect(sched.Body, func(x ast.Node) bool {
			call, ok := x.(*ast.CallExpr)
			if !ok {
				return true
			}
			ft := p.Term(call.Fun)
			if !(ft.Op == "fld" && ft.Obj == fExec) {
				return true
			}
			n++
			pt, _ := c.PointOf(call)
			who := ft.Args[0]
			var deadline *Term
			switch {
			case who.Op == "var" && who.Obj == taskVar:
				deadline = tFld(who, fTs)
			case isPopped(who):
				deadline = tFld(mk("idx", tasksT, tConst(0)), fTs)
			}
			construct := exprString(call.Fun) + "()"
			if deadline == nil {
				r.bad("C17.H2", sched.Name, p.Pos(call), construct, "a task of unknown origin is run", "")
				return true
			}
			ok = false
			why := "no dominating test now.After(" + pretty(deadline.Key()) + ")"
			for _, ct := range c.DominatingConds(pt) {
				for _, a := range Conjuncts(ct) {
					// now.After(d) or !now.Before(d): both imply now >= d
					if a.Op == "not" && a.Args[0].Op == "call" && a.Args[0].Obj != nil && isExtFunc(a.Args[0].Obj.(*types.Func), "time", "Time", "Before") {
						a = a.Args[0]
					} else if a.Op != "call" || a.Obj == nil || !isExtFunc(a.Obj.(*types.Func), "time", "Time", "After") {
						continue
					}
					if len(a.Args) != 2 {
						continue
					}
					if a.Args[1].Key() != deadline.Key() {
						continue
					}
					// the clock value
					nowT := a.Args[0]
					if nowT.Op != "var" {
						why = "the time compared is not a clock reading taken in this round"
						continue
					}
					nv := nowT.Obj.(*types.Var)
					switch {
					case nv == nowTimer && isPopped(who):
						ok = true
					case who.Op == "var" && who.Obj == taskVar:
						// now := time.Now() inside the task arm (i.e. after the receive)
						for _, as := range p.Assignments(sched, nv) {
							if as.Rhs != nil {
								if t := p.Term(as.Rhs); t.Op == "call" && isExtFunc(t.Obj.(*types.Func), "time", "", "Now") && nodeWithin(p, as.Node, taskArm) {
									ok = true
								}
							}
						}
						if !ok {
							why = "the clock is not read (time.Now()) after the task was received"
						}
					default:
						why = "the time compared does not belong to this round"
					}
				}
			}
			// for a popped task the test must be on the root in the same loop iteration with no heap change in between: the test's if-statement directly contains the call
			r.check(ok, "C17.H2", sched.Name, p.Pos(call), construct, "under now.After(deadline), clock read in this round", why+": the task can run before its deadline")
			return true
		})
		if n == 0 {
			r.bad("C17.H2", sched.Name, p.Pos(sched.Node), "execute()", "the worker never runs a task", "")
		}
		// Less
		less := p.FuncOf(p.Method("timedFuncHeap", "Less"))
		okLess := false
		var got string
		ast.Inspect(less.Body, func(x ast.Node) bool {
			rs, ok := x.(*ast.ReturnStmt)
			if !ok || len(rs.Results) != 1 {
				return true
			}
			t := p.Term(rs.Results[0])
			got = pretty(t.Key())
			ps := less.Decl.Type.Params.List
			var names []*ast.Ident
			for _, fl := range ps {
				names = append(names, fl.Names...)
			}
			if len(names) != 2 {
				return true
			}
			h := tVar(p.selfVar(less))
			ti := tFld(mk("idx", h, tVar(p.Info.Defs[names[0]])), fTs)
			tj := tFld(mk("idx", h, tVar(p.Info.Defs[names[1]])), fTs)
			if t.Op == "call" && t.Obj != nil && len(t.Args) == 2 {
				f := t.Obj.(*types.Func)
				if isExtFunc(f, "time", "Time", "Before") && t.Args[0].Key() == ti.Key() && t.Args[1].Key() == tj.Key() {
					okLess = true
				}
				if isExtFunc(f, "time", "Time", "After") && t.Args[0].Key() == tj.Key() && t.Args[1].Key() == ti.Key() {
					okLess = true
				}
			}
			if t.Op == "<" && t.Args[1].IsConst() && t.Args[1].Int == 0 && t.Args[0].Op == "call" && isExtFunc(t.Args[0].Obj.(*types.Func), "time", "Time", "Compare") && t.Args[0].Args[0].Key() == ti.Key() && t.Args[0].Args[1].Key() == tj.Key() {
				okLess = true
			}
			return true
		})
		r.check(okLess, "C17.H2", less.Name, p.Pos(less.Node), "heap order", "h[i].ts.Before(h[j].ts)", "the heap orders by "+got+", not by time.Time's own comparison: for deadlines outside the range of that representation (zero time, far future) the root is not the earliest task, so a nearer task waits behind a far one or a task runs early")
	}

	// ---- H3
	{
		isReset := func(nowV *types.Var) func(ast.Node, Point) bool {
			return func(n ast.Node, _ Point) bool {
				return isCallTo(n, func(call *ast.CallExpr) bool {
					f := p.Callee(call)
					if f == nil || !isExtFunc(f, "time", "Timer", "Reset") || len(call.Args) != 1 {
						return false
					}
					if sel, ok := ast.Unparen(call.Fun).(*ast.SelectorExpr); !ok || p.Term(sel.X).Key() != tVar(timerV).Key() {
						return false
					}
					a := p.Term(call.Args[0])
					// tasks[0].ts.Sub(now)
					if a.Op != "call" || !isExtFunc(a.Obj.(*types.Func), "time", "Time", "Sub") || len(a.Args) != 2 {
						return false
					}
					if a.Args[0].Key() != tFld(mk("idx", tasksT, tConst(0)), fTs).Key() {
						return false
					}
					return a.Args[1].Op == "var" && (nowV == nil || a.Args[1].Obj == nowV)
				})
			}
		}
		// after Push
		var pushPt Point
		havePush := false
		var nowTask *types.Var
		ast.Inspect(taskArm, func(x ast.Node) bool {
			if call, ok := x.(*ast.CallExpr); ok && isHeapOp(call, "Push") {
				pushPt, _ = c.PointOf(call)
				havePush = true
			}
			if as, ok := x.(*ast.AssignStmt); ok && len(as.Lhs) == 1 && len(as.Rhs) == 1 {
				if t := p.Term(as.Rhs[0]); t.Op == "call" && t.Obj != nil && isExtFunc(t.Obj.(*types.Func), "time", "", "Now") {
					if id, ok := as.Lhs[0].(*ast.Ident); ok {
						nowTask, _ = p.Info.Defs[id].(*types.Var)
					}
				}
			}
			return true
		})
		if !havePush {
			r.bad("C17.H3", sched.Name, p.Pos(taskArm), "timer after insertion", "the task arm never stores a task", "")
		} else {
			res := c.FindPath(PathQuery{From: Point{pushPt.B, pushPt.I + 1}, IsBarrier: isReset(nowTask), ExitIsTarget: true, OnBlock: func(b *cfg.Block) (bool, bool) {
				return b.Kind == cfg.KindSelectCaseBody, false
			}})
			if res.Found {
				r.bad("C17.H3", sched.Name, p.Pos(taskArm), "timer after insertion", "after heap.Push the worker can wait again without timer.Reset(tasks[0].ts.Sub(now)): a task that became the earliest waits for the previous (later) timer — a far-future task delays a nearer one", c.DescribePath(res.Path))
			} else {
				r.ok("C17.H3", sched.Name, p.Pos(taskArm), "timer after insertion", "every path from heap.Push to the next select passes timer.Reset(tasks[0].ts.Sub(now))")
			}
		}
		// timer arm: leaves only with an empty heap or after Reset
		ab := armBlock(timerArm)
		emptyCond := lt(tConst(0), tCall(p.Method("timedFuncHeap", "Len"), tasksT))
		res := c.FindPath(PathQuery{From: Point{ab, 0}, IsBarrier: isReset(nowTimer), ExitIsTarget: true,
			EdgeOK: func(from, to *cfg.Block) bool {
				// the false edge of tasks.Len() > 0 (heap empty) legitimately ends the round
				if ct := c.CondTerm(from); ct != nil && ct.Key() == emptyCond.Key() && len(from.Succs) == 2 && to == from.Succs[1] {
					return false
				}
				return true
			},
			OnBlock: func(b *cfg.Block) (bool, bool) { return b.Kind == cfg.KindSelectCaseBody && b != ab, false }})
		if res.Found {
			r.bad("C17.H3", sched.Name, p.Pos(timerArm), "timer at the end of a round", "the timer arm can end with tasks left in the heap and no timer.Reset(tasks[0].ts.Sub(now)): they never run (until another task happens to arrive)", c.DescribePath(res.Path))
		} else {
			r.ok("C17.H3", sched.Name, p.Pos(timerArm), "timer at the end of a round", "ends only with an empty heap or after Reset to the root")
		}
	}

	// ---- H4
	if drainedV != nil {
		drained := tVar(drainedV)
		// (a) blocking receives from timer.C outside the select
		nRecv := 0
		ast.Inspect(sched.Body, func(x ast.Node) bool {
			ue, ok := x.(*ast.UnaryExpr)
			if !ok || ue.Op != token.ARROW || p.Term(ue.X).Key() != timerC.Key() {
				return true
			}
			// select comm?
			for q := p.parents[ue]; q != nil; q = p.parents[q] {
				if cc, ok := p.parents[q].(*ast.CommClause); ok && cc.Comm == q {
					return true
				}
				if _, ok := q.(ast.Stmt); ok {
					break
				}
			}
			nRecv++
			pt, _ := c.PointOf(ue)
			var okDrained, okStopped bool
			for _, ct := range c.DominatingConds(pt) {
				for _, a := range Conjuncts(ct) {
					if a.Key() == Negate(drained).Key() {
						okDrained = true
					}
					// the result of Stop() tested directly: !timer.Stop()
					if a.Op == "not" && a.Args[0].Op == "call" && a.Args[0].Obj != nil {
						if sf, isF := a.Args[0].Obj.(*types.Func); isF && isExtFunc(sf, "time", "Timer", "Stop") {
							okStopped = true
						}
					}
					if a.Op == "not" && a.Args[0].Op == "var" {
						sv := a.Args[0].Obj.(*types.Var)
						for _, as := range p.Assignments(sched, sv) {
							if as.Rhs != nil {
								if t := p.Term(as.Rhs); t.Op == "call" && t.Obj != nil && isExtFunc(t.Obj.(*types.Func), "time", "Timer", "Stop") {
									okStopped = true
								}
							}
						}
					}
				}
			}
			r.check(okDrained && okStopped, "C17.H4", sched.Name, p.Pos(ue), "blocking <-timer.C", "under !stopped && !drained", fmt.Sprintf("the drain is not guarded by !stopped (%v) && !drained (%v): when the channel was already emptied the worker blocks for ever and none of its tasks runs", okStopped, okDrained))
			return true
		})
		// (b) drained = true is the first statement of the timer arm; (c) drained = false after every Reset
		okTrue := false
		if len(timerArm.Body) > 0 {
			if as, ok := timerArm.Body[0].(*ast.AssignStmt); ok && len(as.Lhs) == 1 && p.Term(as.Lhs[0]).Key() == drained.Key() && p.Term(as.Rhs[0]).Op == "true" {
				okTrue = true
			}
		}
		nTrue := 0
		for _, as := range p.Assignments(sched, drainedV) {
			if as.Rhs != nil && p.Term(as.Rhs).Op == "true" {
				nTrue++
			}
		}
		r.check(okTrue && nTrue == 1, "C17.H4", sched.Name, p.Pos(timerArm), "drained = true", "exactly at the head of the timer arm", "the flag that records 'the channel has been received from' is not set exactly when the worker receives from it: the next Stop()==false is followed by a blocking drain of an empty channel, or a stale tick is left in the channel and fires the next timer early")
		okFalse := true
		nReset := 0
		var whyF string
		ast.Inspect(sched.Body, func(x ast.Node) bool {
			call, ok := x.(*ast.CallExpr)
			if !ok {
				return true
			}
			f := p.Callee(call)
			if f == nil || !isExtFunc(f, "time", "Timer", "Reset") {
				return true
			}
			nReset++
			pt, _ := c.PointOf(call)
			found := false
			for i := pt.I + 1; i < len(pt.B.Nodes); i++ {
				if as, ok := pt.B.Nodes[i].(*ast.AssignStmt); ok && len(as.Lhs) == 1 && p.Term(as.Lhs[0]).Key() == drained.Key() && p.Term(as.Rhs[0]).Op == "false" {
					found = true
				}
			}
			if !found {
				okFalse = false
				whyF = "timer.Reset at " + p.Pos(call) + " is not followed by drained = false"
			}
			return true
		})
		r.check(okFalse && nReset >= 2, "C17.H4", sched.Name, p.Pos(sched.Node), "drained = false", fmt.Sprintf("after each of the %d Reset calls", nReset), whyF+": after re-arming, a pending tick is not drained before the next Reset and fires the new timer early (asynctimerchan=1)")
		if nRecv == 0 {
			r.bad("C17.H4", sched.Name, p.Pos(sched.Node), "blocking <-timer.C", "the stop/drain/reset sequence has no drain: with asynctimerchan=1 a stale tick makes the next timer fire at once", "")
		}
	}

	// ---- H8
	checkWorkersStarted(p, r)

	// ---- H5
	checkSchedHandOff(p, r, put, prepend)
}

func nodeWithin(p *Prog, n ast.Node, outer ast.Node) bool {
	for q := n; q != nil; q = p.parents[q] {
		if q == outer {
			return true
		}
	}
	return false
}

// fieldOfExt finds the field named name of the struct behind t (external types).
func fieldOfExt(t types.Type, name string) *types.Var {
	if pt, ok := t.Underlying().(*types.Pointer); ok {
		t = pt.Elem()
	}
	st := structOf(t.Underlying())
	if st == nil {
		st = structOf(t)
	}
	if st == nil {
		return nil
	}
	for i := 0; i < st.NumFields(); i++ {
		if st.Field(i).Name() == name {
			return st.Field(i)
		}
	}
	return nil
}

func checkSchedHandOff(p *Prog, r *Report, put, prepend *FuncInfo) {
	fPend := p.Field("TimedSched", "prependTasks")
	fNotify := p.Field("TimedSched", "chPrependNotify")
	fLock := p.Field("TimedSched", "prependLock")
	fTask := p.Field("TimedSched", "chTask")
	fDie := p.Field("TimedSched", "die")

	isLockOp := func(n ast.Node, fi *FuncInfo, name string) bool {
		f := false
		inspectShallow(n, func(x ast.Node) bool {
			if call, ok := x.(*ast.CallExpr); ok {
				if sel, ok := ast.Unparen(call.Fun).(*ast.SelectorExpr); ok && sel.Sel.Name == name {
					if t := p.Term(sel.X); t.Op == "fld" && t.Obj == fLock {
						f = true
					}
				}
			}
			return true
		})
		return f
	}

	// ---- Put
	{
		c := p.CFG(put)
		recv := tVar(p.selfVar(put))
		var appendPt Point
		okAppend := false
		for _, st := range p.FieldStores(fPend) {
			if st.Fn != put || st.Rhs == nil {
				continue
			}
			t := p.Term(st.Rhs)
			// append(ts.prependTasks, timedFunc{f, deadline})
			if call, ok := ast.Unparen(st.Rhs).(*ast.CallExpr); ok && p.BuiltinName(call) == "append" && len(call.Args) == 2 && p.Term(call.Args[0]).Key() == tFld(recv, fPend).Key() {
				if cl, ok := ast.Unparen(call.Args[1]).(*ast.CompositeLit); ok {
					ps := put.Decl.Type.Params.List
					var names []types.Object
					for _, fl := range ps {
						for _, nm := range fl.Names {
							names = append(names, p.Info.Defs[nm])
						}
					}
					vals := map[string]types.Object{}
					for i, e := range cl.Elts {
						key := ""
						if kv, ok := e.(*ast.KeyValueExpr); ok {
							key = kv.Key.(*ast.Ident).Name
							e = kv.Value
						} else {
							key = structOf(p.Named("timedFunc").Underlying()).Field(i).Name()
						}
						if id, ok := ast.Unparen(e).(*ast.Ident); ok {
							vals[key] = p.Info.Uses[id]
						}
					}
					if len(names) == 2 && vals["execute"] == names[0] && vals["ts"] == names[1] {
						okAppend = true
					}
				}
			}
			_ = t
			appendPt, _ = c.PointOf(st.Node)
		}
		// under the lock: Lock dominates, Unlock follows, in the same block
		okLocked := false
		if okAppend {
			var lockI, unlockI = -1, -1
			for i, n := range appendPt.B.Nodes {
				if isLockOp(n, put, "Lock") && i < appendPt.I {
					lockI = i
				}
				if isLockOp(n, put, "Unlock") && i > appendPt.I && unlockI < 0 {
					unlockI = i
				}
				if isLockOp(n, put, "Unlock") && i < appendPt.I && i > lockI {
					lockI = -1
				}
			}
			okLocked = lockI >= 0 && unlockI >= 0
		}
		r.check(okAppend && okLocked, "C17.H5", put.Name, p.Pos(put.Node), "submission", "prependTasks = append(prependTasks, timedFunc{f, deadline}) between Lock and Unlock", fmt.Sprintf("the task is not appended as (f, deadline) (%v) under prependLock (%v): concurrent submissions overwrite each other, or the task carries another deadline", okAppend, okLocked))
		// always signals afterwards
		isSignal := func(n ast.Node, _ Point) bool {
			ss, ok := n.(*ast.SendStmt)
			if !ok {
				return false
			}
			t := p.Term(ss.Chan)
			return t.Op == "fld" && t.Obj == fNotify
		}
		okSignal := false
		if okAppend {
			res := c.FindPath(PathQuery{From: Point{appendPt.B, appendPt.I + 1}, ExitIsTarget: true,
				OnBlock: func(b *cfg.Block) (bool, bool) {
					if b.Kind == cfg.KindSelectCaseBody {
						if cc, ok := b.Stmt.(*ast.CommClause); ok && cc.Comm != nil && isSignal(cc.Comm, Point{}) {
							return false, true // the send happened
						}
						if cc, ok := b.Stmt.(*ast.CommClause); ok && cc.Comm == nil {
							return false, true // default: a token is already pending, which is as good
						}
					}
					return false, false
				},
				IsBarrier: isSignal})
			okSignal = !res.Found
		}
		// the select has only the send and a default
		shape := false
		ast.Inspect(put.Body, func(x ast.Node) bool {
			sel, ok := x.(*ast.SelectStmt)
			if !ok {
				return true
			}
			var send, def, other int
			for _, st := range sel.Body.List {
				cc := st.(*ast.CommClause)
				switch {
				case cc.Comm == nil:
					def++
				case isSignal(cc.Comm, Point{}):
					send++
				default:
					other++
				}
			}
			shape = send == 1 && def == 1 && other == 0
			return true
		})
		r.check(okSignal && shape, "C17.H5", put.Name, p.Pos(put.Node), "signal after submission", "select { case chPrependNotify <- struct{}{}: default: } on every path after the append", "a path through Put appends a task without offering a wake-up token (or can block): the task sits in the pending slice until some later Put")
	}

	// ---- capacity of the signal channel
	{
		ok := false
		for _, st := range p.FieldStores(fNotify) {
			if st.Rhs == nil {
				continue
			}
			if call, isC := ast.Unparen(st.Rhs).(*ast.CallExpr); isC && p.BuiltinName(call) == "make" && len(call.Args) == 2 {
				if t := p.Term(call.Args[1]); t.IsConst() && t.Int >= 1 {
					ok = true
				}
			} else {
				ok = false
			}
		}
		r.check(ok, "C17.H5", "NewTimedSched", "-", "capacity of chPrependNotify", ">= 1", "the signal channel is unbuffered: a non-blocking send while the forwarder is busy is dropped, and the tasks appended meanwhile are never forwarded")
	}

	// ---- H7
	{
		sub := newReport("C13", r.Tier)
		sub.curCfg = r.curCfg
		checkNotifyNonBlocking(p, sub)
		for _, o := range sub.Obs {
			if !strings.Contains(o.Construct, "chPrependNotify") {
				continue
			}
			if o.Status == Discharged {
				r.ok("C17.H7", o.Func, o.Pos, o.Construct, o.Detail)
			} else {
				r.bad("C17.H7", o.Func, o.Pos, o.Construct, o.Detail+": a task that re-submits from inside a worker deadlocks with the forwarder; nothing runs again", o.Witness)
			}
		}
	}

	// ---- H6
	{
		fTs := p.Field("timedFunc", "ts")
		n := 0
		for _, st := range p.FieldStores(fTs) {
			n++
			construct := "store(timedFunc.ts) in " + st.Fn.Name
			root := rootFuncInfo(st.Fn)
			if root != put || st.Rhs == nil {
				r.bad("C17.H6", st.Fn.Name, p.Pos(st.Node), construct, "a task's deadline is (re)written outside Put: it can run before the deadline it was submitted with, or be postponed", "")
				continue
			}
			t := p.Term(st.Rhs)
			v, _ := t.Obj.(*types.Var)
			okV := t.Op == "var" && v != nil && p.isParam(v) && len(p.Assignments(put, v)) == 0
			r.check(okV, "C17.H6", st.Fn.Name, p.Pos(st.Node), construct, "ts is Put's deadline parameter, unmodified", "the deadline stored is "+exprString(st.Rhs)+", which is not Put's deadline parameter as submitted (it is reassigned or computed): a task can run before the deadline its submitter asked for")
		}
		if n == 0 {
			r.bad("C17.H6", put.Name, p.Pos(put.Node), "store(timedFunc.ts)", "no task deadline is ever stored", "")
		}
	}

	// ---- prepend
	{
		c := p.CFG(prepend)
		recv := tVar(p.selfVar(prepend))
		// receives from the signal channel
		var recvArms []*cfg.Block
		nRecv := 0
		ast.Inspect(prepend.Body, func(x ast.Node) bool {
			ue, ok := x.(*ast.UnaryExpr)
			if !ok || ue.Op != token.ARROW {
				return true
			}
			if t := p.Term(ue.X); !(t.Op == "fld" && t.Obj == fNotify) {
				return true
			}
			nRecv++
			pt, ok := c.PointOf(ue)
			if ok && pt.B.Kind == cfg.KindSelectCaseBody {
				recvArms = append(recvArms, pt.B)
			} else {
				recvArms = append(recvArms, nil)
			}
			return true
		})
		// the swap: tasks, ts.prependTasks = ts.prependTasks, tasks[:0] (or = nil) under the lock
		var local *types.Var
		// swapAt: n (in fn, receiver rcv) is the swap  x, ts.prependTasks = ts.prependTasks, <empty>; returns x
		swapAt := func(n ast.Node, rcv *Term) *types.Var {
			as, ok := n.(*ast.AssignStmt)
			if !ok || len(as.Lhs) != 2 || len(as.Rhs) != 2 {
				return nil
			}
			for i := 0; i < 2; i++ {
				l, rr := p.Term(as.Lhs[i]), p.Term(as.Rhs[i])
				l2, r2 := p.Term(as.Lhs[1-i]), p.Term(as.Rhs[1-i])
				if l.Op == "var" && rr.Key() == tFld(rcv, fPend).Key() && l2.Key() == tFld(rcv, fPend).Key() {
					// the pending slice is replaced by an empty one
					empty := r2.Op == "nil" || (r2.Op == "slice" && r2.Args[2] != nil && r2.Args[2].IsConst() && r2.Args[2].Int == 0)
					if empty {
						v, _ := l.Obj.(*types.Var)
						return v
					}
				}
			}
			return nil
		}
		lockedAt := func(fn *FuncInfo, as ast.Node) bool {
			cc := p.CFG(fn)
			pt, _ := cc.PointOf(as)
			var l, u = -1, -1
			for i, n := range pt.B.Nodes {
				if isLockOp(n, fn, "Lock") && i < pt.I {
					l = i
				}
				if isLockOp(n, fn, "Unlock") && i > pt.I && u < 0 {
					u = i
				}
			}
			return l >= 0 && u >= 0
		}
		// swapHelper: a method of the scheduler that on every path takes the pending slice by the swap, under the lock,
		// and returns what it took (the swap extracted from prepend)
		swapHelper := func(h *FuncInfo) bool {
			if h == nil || h.Body == nil || h.Lit != nil || p.selfVar(h) == nil {
				return false
			}
			hr := tVar(p.selfVar(h))
			hc := p.CFG(h)
			var took *types.Var
			var swapNode ast.Node
			inspectBody(h, func(x ast.Node) bool {
				if v := swapAt(x, hr); v != nil {
					took, swapNode = v, x
				}
				return true
			})
			if took == nil || !lockedAt(h, swapNode) {
				return false
			}
			// no path to the exit avoids the swap, and every return hands out what was taken
			res := hc.FindPath(PathQuery{From: Point{hc.Entry(), 0}, ExitIsTarget: true, IsBarrier: func(n ast.Node, _ Point) bool { return n == swapNode }})
			if res.Found {
				return false
			}
			okRet := true
			nRet := 0
			inspectBody(h, func(x ast.Node) bool {
				if rs, ok := x.(*ast.ReturnStmt); ok {
					nRet++
					if len(rs.Results) != 1 {
						okRet = false
					} else if t := p.Term(rs.Results[0]); !(t.Op == "var" && t.Obj == took) {
						okRet = false
					}
				}
				return true
			})
			if !okRet || nRet == 0 {
				return false
			}
			// the taken variable is not assigned after the swap
			return len(p.Assignments(h, took)) <= 1
		}
		helperSwapLocked := false
		isSwap := func(n ast.Node, _ Point) bool {
			if v := swapAt(n, recv); v != nil {
				local = v
				return true
			}
			// tasks = ts.swapPending(tasks)
			if as, ok := n.(*ast.AssignStmt); ok && len(as.Lhs) == 1 && len(as.Rhs) == 1 {
				if call, isC := ast.Unparen(as.Rhs[0]).(*ast.CallExpr); isC {
					if f := p.Callee(call); f != nil && f.Pkg() == p.Types {
						if l := p.Term(as.Lhs[0]); l.Op == "var" && swapHelper(p.FuncOf(f)) {
							local, _ = l.Obj.(*types.Var)
							helperSwapLocked = true
							return true
						}
					}
				}
			}
			return false
		}
		okEvery := nRecv > 0
		why := "prepend never receives a wake-up token"
		for _, ab := range recvArms {
			if ab == nil {
				okEvery, why = false, "a wake-up token is received outside a select arm"
				continue
			}
			res := c.FindPath(PathQuery{From: Point{ab, 0}, IsBarrier: isSwap, ExitIsTarget: false,
				OnBlock: func(b *cfg.Block) (bool, bool) {
					return b.Kind == cfg.KindSelectCaseBody && b != ab && isTopLevelArm(p, prepend, b), false
				}})
			if res.Found {
				okEvery = false
				why = "after receiving a wake-up token at " + p.Pos(ab.Stmt) + " prepend can wait again without taking the pending slice: the token may have announced tasks appended after the last take — they are never forwarded (until some later Put)"
			}
		}
		// the swap is under the lock
		okLocked := false
		ast.Inspect(prepend.Body, func(x ast.Node) bool {
			if as, ok := x.(*ast.AssignStmt); ok && isSwap(as, Point{}) {
				okLocked = helperSwapLocked || lockedAt(prepend, as)
			}
			return true
		})
		r.check(okEvery && okLocked, "C17.H5", prepend.Name, p.Pos(prepend.Node), "token -> take the whole pending slice", "every receive of a token is followed by the swap under prependLock", why)
		// forwarding: range over the local slice; body = select { case chTask <- local[k]: ...; case <-die: return }
		okFwd := false
		whyF := "no loop forwards the taken slice"
		ast.Inspect(prepend.Body, func(x ast.Node) bool {
			rs, ok := x.(*ast.RangeStmt)
			if !ok || local == nil {
				return true
			}
			if t := p.Term(rs.X); !(t.Op == "var" && t.Obj == local) {
				return true
			}
			kv := rangeKeyVar(p, rs)
			var vv *types.Var
			if id, ok := rs.Value.(*ast.Ident); ok && id.Name != "_" {
				vv, _ = p.Info.Defs[id].(*types.Var)
			}
			if len(rs.Body.List) != 1 {
				whyF = "the forwarding loop does more than one select per element"
				return true
			}
			sel, ok := rs.Body.List[0].(*ast.SelectStmt)
			if !ok {
				whyF = "the forwarding loop does not select on {send, die}"
				return true
			}
			var send, die, other int
			for _, st := range sel.Body.List {
				cc := st.(*ast.CommClause)
				switch cm := cc.Comm.(type) {
				case *ast.SendStmt:
					ch := p.Term(cm.Chan)
					v := p.Term(cm.Value)
					isElem := (v.Op == "idx" && v.Args[0].Op == "var" && v.Args[0].Obj == local && kv != nil && v.Args[1].Op == "var" && v.Args[1].Obj == kv) || (vv != nil && v.Op == "var" && v.Obj == vv)
					if ch.Op == "fld" && ch.Obj == fTask && isElem {
						send++
						// the arm must not leave the loop
						for _, s2 := range cc.Body {
							ast.Inspect(s2, func(y ast.Node) bool {
								switch y.(type) {
								case *ast.BranchStmt, *ast.ReturnStmt:
									other++
								}
								return true
							})
						}
					} else {
						other++
					}
				case *ast.ExprStmt:
					t := p.Term(cm.X)
					if t.Op == "recv" && t.Args[0].Op == "fld" && t.Args[0].Obj == fDie {
						die++
					} else {
						other++
					}
				default:
					other++ // a default arm would drop the element
				}
			}
			if send == 1 && die == 1 && other == 0 {
				okFwd = true
			} else {
				whyF = fmt.Sprintf("forwarding select: send arms %d, die arms %d, other arms / early exits %d", send, die, other)
			}
			return true
		})
		r.check(okFwd, "C17.H5", prepend.Name, p.Pos(prepend.Node), "forwarding", "for k := range tasks { select { case chTask <- tasks[k]: case <-die: return } }", whyF+": an element of the taken slice can be skipped or dropped (a default arm, an early exit), so a submitted task never runs")
	}
}

// isTopLevelArm: the select this arm belongs to is the outermost select of the function's loop.
func isTopLevelArm(p *Prog, fi *FuncInfo, b *cfg.Block) bool {
	cc, ok := b.Stmt.(*ast.CommClause)
	if !ok {
		return false
	}
	for q := p.parents[cc]; q != nil; q = p.parents[q] {
		if _, ok := q.(*ast.CommClause); ok {
			return false
		}
		if _, ok := q.(*ast.RangeStmt); ok {
			return false
		}
	}
	return true
}

// checkWorkersStarted: C17.H8.
func checkWorkersStarted(p *Prog, r *Report) {
	ctor := p.FuncByName("NewTimedSched")
	if ctor == nil || ctor.Decl == nil {
		r.bad("C17.H8", "NewTimedSched", "-", "workers", "constructor not found", "")
		return
	}
	var par *types.Var
	if pl := ctor.Decl.Type.Params.List; len(pl) > 0 && len(pl[0].Names) > 0 {
		par, _ = p.Info.Defs[pl[0].Names[0]].(*types.Var)
	}
	sched, prepend := p.TryMethod("TimedSched", "sched"), p.TryMethod("TimedSched", "prepend")
	nSched, nPre := 0, 0
	okSched, okPre := false, false
	why := ""
	inspectBody(ctor, func(n ast.Node) bool {
		g, ok := n.(*ast.GoStmt)
		if !ok {
			return true
		}
		switch p.Callee(g.Call) {
		case prepend:
			nPre++
			okPre = enclosingLoop(p, g) == nil && len(p.CFG(ctor).DominatingConds(mustPoint(p.CFG(ctor), g))) == 0
		case sched:
			nSched++
			loop := enclosingLoop(p, g)
			if loop == nil {
				why = "go sched() is not in a loop over the parameter"
				return true
			}
			var trips *Linear
			switch l := loop.(type) {
			case *ast.RangeStmt:
				if tv := p.Info.TypeOf(l.X); tv != nil && isIntegerType(tv) {
					trips = Lin(p.Term(l.X))
				}
			case *ast.ForStmt:
				// for i := a; i < N; i++   (or i <= N, i != N)
				if as, ok := l.Init.(*ast.AssignStmt); ok && len(as.Lhs) == 1 && len(as.Rhs) == 1 {
					if id, ok := as.Lhs[0].(*ast.Ident); ok {
						iv, _ := p.Info.Defs[id].(*types.Var)
						_, isInc := p.incBy1(l.Post)
						if be, ok := l.Cond.(*ast.BinaryExpr); ok && iv != nil && isInc {
							lt, rt := p.Term(be.X), p.Term(be.Y)
							if lt.Op == "var" && lt.Obj == types.Object(iv) {
								t := newLinear()
								t.addScaled(Lin(rt), 1)
								t.addScaled(Lin(p.Term(as.Rhs[0])), -1)
								switch be.Op.String() {
								case "<", "!=":
									trips = t
								case "<=":
									t.C++
									trips = t
								}
							}
						}
					}
				}
			}
			if trips == nil {
				why = "the trip count of the loop around go sched() is not understood"
				return true
			}
			want := newLinear()
			if par != nil {
				want = Lin(tVar(par))
			}
			// the loop body must start the worker unconditionally
			c := p.CFG(ctor)
			conds := c.localDominatingConds(mustPoint(c, g))
			extra := 0
			for _, cd := range conds {
				if lc := loopCond(loop); lc != nil && p.Term(lc).Key() == cd.Key() {
					continue
				}
				extra++
			}
			if trips.Equal(want) && extra == 0 && enclosingLoop(p, loop) == nil {
				okSched = true
			} else {
				why = fmt.Sprintf("the loop around go sched() runs %s times (conditions inside: %d), not `parallel` times", pretty(trips.String()), extra)
			}
		}
		return true
	})
	if nSched == 1 && okSched {
		r.ok("C17.H8", ctor.Name, p.Pos(ctor.Node), "sched workers", "one go sched() in a loop that runs exactly `parallel` times")
	} else {
		if why == "" {
			why = fmt.Sprintf("%d go sched() statements", nSched)
		}
		r.bad("C17.H8", ctor.Name, p.Pos(ctor.Node), "sched workers", why+": a scheduler built with a small parameter has no worker — Put succeeds and the function is never run, whatever its deadline", "")
	}
	r.check(nPre == 1 && okPre, "C17.H8", ctor.Name, p.Pos(ctor.Node), "prepend forwarder", "one unconditional go prepend()", "the forwarding goroutine is not started exactly once and unconditionally: submitted tasks never reach the workers")
}

func mustPoint(c *CFG, n ast.Node) Point {
	pt, _ := c.PointOf(n)
	return pt
}
