package main

import (
	"fmt"
	"go/ast"
	"go/token"
	"go/types"
	"golang.org/x/tools/go/cfg"
	"sort"
	"strings"
)

func init() {
	register(&propCheck{
		id:  "C08",
		run: checkC08,
		explain: "Byte equality with crypto/cipher's CFB and the round trip for concrete keys and contents are runtime facts and are not computed. Decided is the law that defines full-block CFB, for every length class " +
			"of the four hand-unrolled functions, by an abstract interpretation of their statements (no execution): the abstract state records which scratch register holds E(C[j-1]) (E(IV) before the first block), " +
			"the cursor relative to 'base', which destination blocks were written and which source blocks may have been overwritten in place. Every one-block step must xor src[j] with the register holding " +
			"E(C[j-1]) into dst[j] and produce E(C[j]) from the ciphertext (dst[j] after writing it when encrypting; src[j] before dst[j] is written when decrypting, because dst may alias src); the loop body must " +
			"re-establish its entry state after 8 steps and base += 8*bs; arm k of the switch must perform exactly k steps before the tail, for all k in 0..7 = n & 7; the tail xors the rest with the live register. " +
			"Also decided: the IV is the published constant and is only ever read by block.Encrypt; dispatch by block size with scratch buffers of bs and 2*bs bytes; Encrypt/Decrypt of the stream, xor and " +
			"null ciphers are the same involution and copy the parts they do not transform when dst != src; AEAD Seal is guarded against reallocation and Open decrypts into the ciphertext's own storage; " +
			"the scratch registers are used only under their mutex (C14.L1).",
		assume: []string{
			"crypto/subtle.XORBytes(dst, x, y) xors min(len(x), len(y)) bytes into dst; cipher.Block.Encrypt(dst, src) reads the first block of src and writes one block to dst",
			"the block ciphers, Salsa20 and AES-GCM themselves are correct",
		},
	})
}

func checkC08(p *Prog, r *Report) {
	r.rule("C08.K1", "the first register value is block.Encrypt(tbl, initialVector); initialVector is the published 16-byte constant and is used nowhere but as the source of block.Encrypt", 5)
	r.rule("C08.K2", "CFB law, encryption: for every length class, step j is dst[j] = src[j] ^ R with R = E(C[j-1]), then R' = E(dst[j]); loop invariant re-established; switch arm k performs exactly k steps; tail xors with the live register", 2)
	r.rule("C08.K3", "CFB law, decryption: as K2 with C = src, and E(src[j]) is computed before dst[j] is written (dst may alias src) into a register other than the live one", 2)
	r.rule("C08.K5", "encrypt/decrypt dispatch on BlockSize() to the function of that width (8, 16), anything else panics; encbuf has bs and decbuf 2*bs bytes", 3)
	r.rule("C08.K6", "stream, xor and null ciphers: Decrypt is the same transformation as Encrypt (an involution), and the untransformed part is copied when dst != src", 3)
	r.rule("C08.K7", "AEAD: Seal is reached only when dst != nil and cap(dst)-len(dst) >= len(plaintext)+Overhead(); its result is stored back into the packet it was sealed from and that packet is read afterwards; Open decrypts into ciphertext[:0]", 5)
	r.rule("C08.K9", "sealing stays inside the packet buffer: the core MTU a session derives leaves room for the AEAD tag on top of the nonce and FEC header for every requested MTU, the clamped ones included (= C10.M6) — otherwise Seal must reallocate, which aeadCrypt refuses with a panic on the transmit goroutine", 2)
	r.rule("C08.K10", "a cipher.Block object serves both directions (Encrypt under encMu beside Decrypt under decMu) only if the block methods of its concrete type never write memory reachable from the object; otherwise each direction has its own object (finding F13: gmsm's Sm4Cipher keeps scratch buffers inside the cipher)", 8)
	r.rule("C08.K11", "the TEA cipher is the 16-round variant the package has always put on the wire: NewTEABlockCrypt builds it with tea.NewCipherWithRounds(key, 16) (x/crypto's default is 64 rounds: a round trip still works, old peers and other implementations do not)", 1)
	r.rule("C08.K8", "the feedback registers encbuf/decbuf are read and written only under encMu/decMu (C14.L1)", 4)

	// ---- K1: initialVector
	iv := p.Var("initialVector")
	{
		want := []int64{167, 115, 79, 156, 18, 172, 27, 1, 164, 21, 242, 193, 252, 120, 230, 107}
		var got []int64
		okUse := true
		var badUse string
		for _, f := range p.Files {
			ast.Inspect(f, func(n ast.Node) bool {
				switch x := n.(type) {
				case *ast.ValueSpec:
					for i, nm := range x.Names {
						if p.Info.Defs[nm] == iv && i < len(x.Values) {
							if cl, ok := x.Values[i].(*ast.CompositeLit); ok {
								for _, e := range cl.Elts {
									if v, ok := p.constVal(e); ok {
										got = append(got, v)
									} else {
										got = append(got, -1)
									}
								}
							}
						}
					}
				case *ast.Ident:
					if p.Info.Uses[x] != iv {
						return true
					}
					call, ok := p.parents[x].(*ast.CallExpr)
					if ok {
						if f := p.Callee(call); f != nil && f.Name() == "Encrypt" && len(call.Args) == 2 && call.Args[1] == ast.Expr(x) && recvTypeName(f) == "Block" {
							return true
						}
					}
					okUse = false
					badUse = p.Pos(x)
				}
				return true
			})
		}
		same := len(got) == len(want)
		for i := range want {
			if same && got[i] != want[i] {
				same = false
			}
		}
		r.check(same, "C08.K1", "initialVector", p.PosOf(iv.Pos()), "value of the IV", "the published constant (16 bytes)", fmt.Sprintf("the package IV is %v: every peer running a released version (and every other implementation of the protocol) decrypts garbage, although this build round-trips with itself", got))
		r.check(okUse, "C08.K1", "initialVector", p.PosOf(iv.Pos()), "uses of the IV", "only as the source operand of block.Encrypt", "initialVector is used at "+badUse+" other than as the source of block.Encrypt: it can be modified at run time (it is a slice), changing the IV for all later packets")
	}

	// ---- K2/K3 + rest of K1: the four unrolled functions
	for _, spec := range []struct {
		name string
		dec  bool
		bs   int64
	}{{"encrypt8", false, 8}, {"encrypt16", false, 16}, {"decrypt8", true, 8}, {"decrypt16", true, 16}} {
		fi := p.FuncByName(spec.name)
		rule := "C08.K2"
		if spec.dec {
			rule = "C08.K3"
		}
		res := interpretCFB(p, fi, spec.dec, spec.bs)
		if res.ivOK {
			r.ok("C08.K1", fi.Name, p.Pos(fi.Node), "first register value in "+fi.Name, "block.Encrypt(tbl, initialVector) with base = 0")
		} else {
			r.bad("C08.K1", fi.Name, p.Pos(fi.Node), "first register value in "+fi.Name, "the chain does not start from E(initialVector) at offset 0: "+res.ivWhy, "")
		}
		if len(res.errs) == 0 {
			r.ok(rule, fi.Name, p.Pos(fi.Node), "CFB law in "+fi.Name, fmt.Sprintf("loop body: %d steps, invariant re-established; switch arms %v: k steps each, then the tail; %d abstract steps checked", res.loopSteps, res.arms, res.steps))
		} else {
			for _, e := range res.errs {
				if e.und {
					r.undecided(rule, fi.Name, e.pos, "CFB law in "+fi.Name+": "+e.where, e.msg)
				} else {
					r.bad(rule, fi.Name, e.pos, "CFB law in "+fi.Name+": "+e.where, e.msg, "")
				}
			}
		}
	}

	// ---- K5
	for _, spec := range []struct {
		name string
		f8   string
		f16  string
	}{{"encrypt", "encrypt8", "encrypt16"}, {"decrypt", "decrypt8", "decrypt16"}} {
		fi := p.FuncByName(spec.name)
		ok := false
		why := ""
		{
			c := p.CFG(fi)
			arms := map[int64]string{}
			isBS := func(t *Term) bool { return t.Op == "call" && t.Obj != nil && t.Obj.Name() == "BlockSize" }
			okArgs := true
			ast.Inspect(fi.Body, func(n ast.Node) bool {
				call, isC := n.(*ast.CallExpr)
				if !isC {
					return true
				}
				f := p.Callee(call)
				if f == nil || f.Pkg() != p.Types || (f.Name() != spec.f8 && f.Name() != spec.f16) {
					return true
				}
				// the arguments are passed through in order
				for i, a := range call.Args {
					id, isId := a.(*ast.Ident)
					if !isId || p.Info.Uses[id] != fi.paramObj(p, i) {
						okArgs = false
					}
				}
				pt, _ := c.PointOf(call)
				for _, ct := range c.DominatingConds(pt) {
					for _, a := range Conjuncts(ct) {
						a = p.resolveSingleDefs(fi, a)
						if a.Op == "==" && len(a.Args) == 2 {
							for i := 0; i < 2; i++ {
								if a.Args[i].IsConst() && isBS(a.Args[1-i]) {
									arms[a.Args[i].Int] = f.Name()
								}
							}
						}
					}
				}
				return true
			})
			// anything else panics: a panic call that is not under either equality
			def := false
			ast.Inspect(fi.Body, func(n ast.Node) bool {
				call, isC := n.(*ast.CallExpr)
				if !isC || p.BuiltinName(call) != "panic" {
					return true
				}
				pt, _ := c.PointOf(call)
				under := false
				for _, ct := range c.DominatingConds(pt) {
					for _, a := range Conjuncts(ct) {
						a = p.resolveSingleDefs(fi, a)
						if a.Op == "==" && len(a.Args) == 2 && ((a.Args[0].IsConst() && isBS(a.Args[1])) || (a.Args[1].IsConst() && isBS(a.Args[0]))) {
							under = true
						}
					}
				}
				if !under {
					def = true
				}
				return true
			})
			ok = arms[8] == spec.f8 && arms[16] == spec.f16 && len(arms) == 2 && def && okArgs
			why = fmt.Sprintf("arms %v, anything else panics: %v, arguments passed through: %v", arms, def, okArgs)
		}
		r.check(ok, "C08.K5", fi.Name, p.Pos(fi.Node), "dispatch by block size", "8 -> "+spec.f8+", 16 -> "+spec.f16+", otherwise panic", why+": a cipher is processed with the wrong block width (garbage, not CFB)")
	}
	checkCipherScratch(p, r, "C08.K5")

	// ---- K6
	for _, typ := range []string{"salsa20BlockCrypt", "simpleXORBlockCrypt", "noneBlockCrypt"} {
		e := p.FuncOf(p.Method(typ, "Encrypt"))
		d := p.FuncOf(p.Method(typ, "Decrypt"))
		ne, nd := normBody(p, e), normBody(p, d)
		same := ne == nd
		// Decrypt may also simply call Encrypt(dst, src)
		if !same {
			if strings.Contains(nd, "CALL:"+typ+".Encrypt(P0,P1)") && strings.Count(nd, ";") <= 1 {
				same = true
			}
		}
		why := "Encrypt and Decrypt of " + typ + " differ: " + ne + "  vs  " + nd
		okCopy := true
		switch typ {
		case "salsa20BlockCrypt":
			// XORKeyStream(dst[8:], src[8:], src[:8], &key) and copy(dst[:8], src[:8]) under &dst[0] != &src[0]
			okCopy = strings.Contains(ne, "XORKeyStream(P0[8:],P1[8:],P1[:8],") && strings.Contains(ne, "copy(P0[:8],P1[:8])")
			if !okCopy {
				why = "salsa20: the keystream is not applied to [8:] with nonce src[:8], or the nonce is not copied when dst != src: " + ne
			}
		case "simpleXORBlockCrypt":
			okCopy = strings.Contains(ne, "XORBytes(P0,P1,")
			if !okCopy {
				why = "xor: not dst = src ^ table over the whole packet: " + ne
			}
		case "noneBlockCrypt":
			okCopy = strings.Contains(ne, "copy(P0,P1)")
			if !okCopy {
				why = "none: the packet is not copied when dst != src: " + ne
			}
		}
		r.check(same && okCopy, "C08.K6", "("+typ+")", p.Pos(e.Node), "Encrypt/Decrypt of "+typ, "same involution; untransformed part copied when dst != src", why)
	}

	// ---- K7
	{
		seal := p.FuncOf(p.Method("aeadCrypt", "Seal"))
		c := p.CFG(seal)
		ok := false
		var facts string
		ast.Inspect(seal.Body, func(n ast.Node) bool {
			call, isC := n.(*ast.CallExpr)
			if !isC {
				return true
			}
			f := p.Callee(call)
			if f == nil || f.Name() != "Seal" || recvTypeName(f) != "AEAD" {
				return true
			}
			fs := p.FactsOf(seal).AtNode(call)
			facts = pretty(fs.String())
			dst := tVar(seal.paramObj(p, 0))
			pt := tVar(seal.paramObj(p, 2))
			okNil := fs.Holds(ne(dst, mk("nil")))
			// cap(dst)-len(dst) >= len(plaintext)+Overhead()
			okCap := false
			pnt, _ := c.PointOf(call)
			for _, ct := range c.DominatingConds(pnt) {
				for _, a := range Conjuncts(ct) {
					a = p.resolveSingleDefs(seal, a) // room := cap(dst) - len(dst)
					if a.Op == "<=" {
						l, rr := Lin(a.Args[0]), Lin(a.Args[1])
						// l <= rr : len(pt)+Overhead <= cap(dst)-len(dst)
						d := newLinear()
						d.addScaled(rr, 1)
						d.addScaled(l, -1)
						// expect cap(dst) - len(dst) - len(pt) - Overhead() >= 0
						var capOK, lenOK, ptOK, ovOK bool
						for k, cf := range d.Coef {
							at := d.Atoms[k]
							switch {
							case at.Op == "cap" && at.Args[0].Key() == dst.Key() && cf == 1:
								capOK = true
							case at.Op == "len" && at.Args[0].Key() == dst.Key() && cf == -1:
								lenOK = true
							case at.Op == "len" && at.Args[0].Key() == pt.Key() && cf == -1:
								ptOK = true
							case at.Op == "call" && at.Obj != nil && at.Obj.Name() == "Overhead" && cf == -1:
								ovOK = true
							}
						}
						if capOK && lenOK && ptOK && ovOK && d.C == 0 && nonZeroCoefs(d) == 4 {
							okCap = true
						}
					}
				}
			}
			// arguments passed through
			okArgs := len(call.Args) == 4
			for i, a := range call.Args {
				if id, isId := a.(*ast.Ident); !isId || p.Info.Uses[id] != seal.paramObj(p, i) {
					okArgs = false
				}
			}
			ok = okNil && okCap && okArgs
			return true
		})
		r.check(ok, "C08.K7", seal.Name, p.Pos(seal.Node), "guard of aead.Seal", "dst != nil && cap(dst)-len(dst) >= len(plaintext)+Overhead()", "aead.Seal can be reached with a destination that is nil or too small: it silently allocates a new slice, and the packet that is sent (the original buffer) is not the sealed one; facts: "+facts)
		// the sealed packet (nonce + ciphertext + tag, longer than the input) replaces the packet that is transmitted
		sealM := p.Method("aeadCrypt", "Seal")
		nSeal := 0
		for _, s := range p.CallsTo(sealM) {
			fi := rootFuncInfo(s.Fn)
			nSeal++
			cf := p.CFG(fi)
			construct := "result of Seal in " + fi.Name
			as, isA := p.parents[s.Call].(*ast.AssignStmt)
			if !isA || len(as.Lhs) != 1 || len(as.Rhs) != 1 {
				r.bad("C08.K7", fi.Name, p.Pos(s.Call), construct, "the slice returned by Seal is not stored: the packet that is sent is the unsealed buffer header (without the authentication tag)", "")
				continue
			}
			fs := p.FactsOf(fi).AtNode(s.Call)
			dst := fs.Resolve(p.Term(s.Call.Args[0]))
			root := dst
			for root.Op == "slice" {
				root = root.Args[0]
			}
			lt := p.Term(as.Lhs[0])
			okRoot := lt.Key() == root.Key() || fs.Resolve(lt).Key() == root.Key()
			if !okRoot && as.Tok == token.DEFINE {
				// sealed := Seal(…); <root> = sealed — the temporary is copied back in the same block
				if id, isId := ast.Unparen(as.Lhs[0]).(*ast.Ident); isId {
					if tv, _ := p.Info.Defs[id].(*types.Var); tv != nil && len(p.Assignments(fi, tv)) == 1 {
						if pt, okP := cf.PointOf(as); okP {
							for _, nd := range pt.B.Nodes[pt.I+1:] {
								if a2, ok := nd.(*ast.AssignStmt); ok && len(a2.Lhs) == 1 && len(a2.Rhs) == 1 && a2.Tok == token.ASSIGN {
									if rid, ok := ast.Unparen(a2.Rhs[0]).(*ast.Ident); ok && p.Info.Uses[rid] == types.Object(tv) {
										l2 := p.Term(a2.Lhs[0])
										if l2.Key() == root.Key() || fs.Resolve(l2).Key() == root.Key() {
											okRoot = true
										}
									}
								}
							}
						}
					}
				}
			}
			okLive := true
			why := ""
			if id, isId := ast.Unparen(as.Lhs[0]).(*ast.Ident); isId {
				v, _ := p.Info.Uses[id].(*types.Var)
				if v == nil {
					v, _ = p.Info.Defs[id].(*types.Var)
				}
				// a read of v reachable from here before v is re-bound
				pt, _ := cf.PointOf(as)
				res := cf.FindPath(PathQuery{From: Point{pt.B, pt.I + 1},
					IsTarget: func(n ast.Node, _ Point) bool {
						read := false
						ast.Inspect(n, func(x ast.Node) bool {
							if _, isLit := x.(*ast.FuncLit); isLit {
								return false
							}
							if a2, ok := x.(*ast.AssignStmt); ok {
								for _, rr := range a2.Rhs {
									if mentionsVars(p, rr, map[*types.Var]bool{v: true}) {
										read = true
									}
								}
								for _, l := range a2.Lhs {
									if _, plain := ast.Unparen(l).(*ast.Ident); !plain && mentionsVars(p, l, map[*types.Var]bool{v: true}) {
										read = true
									}
								}
								return false
							}
							if i2, ok := x.(*ast.Ident); ok && p.Info.Uses[i2] == v {
								read = true
							}
							return true
						})
						return read
					},
					IsBarrier: func(n ast.Node, _ Point) bool {
						if a2, ok := n.(*ast.AssignStmt); ok {
							for _, l := range a2.Lhs {
								if i2, ok := ast.Unparen(l).(*ast.Ident); ok && (p.Info.Uses[i2] == v || p.Info.Defs[i2] == v) {
									return true
								}
							}
						}
						return false
					},
					OnBlock: func(b *cfg.Block) (bool, bool) {
						// the header of a range loop re-binds its key/value variables
						if b.Kind == cfg.KindRangeLoop {
							if rs, ok := b.Stmt.(*ast.RangeStmt); ok {
								for _, kv := range []ast.Expr{rs.Key, rs.Value} {
									if i2, ok := kv.(*ast.Ident); ok && p.Info.Defs[i2] == v {
										return false, true
									}
								}
							}
						}
						return false, false
					}})
				okLive = res.Found
				if !okLive {
					why = "the result is assigned to " + id.Name + ", which is not read again before it is re-bound (a range value variable is a copy of the element): "
				}
			}
			r.check(okRoot && okLive, "C08.K7", fi.Name, p.Pos(s.Call), construct, "stored back into the packet it was sealed from ("+exprString(as.Lhs[0])+"), which is read afterwards", why+"the sealed packet does not replace the one that is transmitted: the datagram goes out with its old length, i.e. without the authentication tag, and the peer's Open fails (root of dst: "+pretty(root.Key())+", stored to: "+pretty(lt.Key())+")")
		}
		if nSeal == 0 {
			r.bad("C08.K7", "aeadCrypt.Seal", "-", "result of Seal", "no call of aeadCrypt.Seal found in the output path", "")
		}
		// Open into ciphertext[:0]
		open := p.Method("aeadCrypt", "Open")
		n := 0
		for _, s := range p.CallsTo(open) {
			n++
			d := p.Term(s.Call.Args[0])
			ct := p.Term(s.Call.Args[2])
			ok := d.Op == "slice" && d.Args[0].Key() == ct.Key() && d.Args[1] == nil && d.Args[2] != nil && d.Args[2].IsConst() && d.Args[2].Int == 0
			r.check(ok, "C08.K7", s.Fn.Name, p.Pos(s.Call), "destination of Open in "+s.Fn.Name, "ciphertext[:0] (decrypts inside the packet buffer)", "Open does not decrypt into the ciphertext's own storage: it allocates per packet, or writes over another part of the receive buffer")
		}
		if n == 0 {
			r.bad("C08.K7", "aeadCrypt.Open", "-", "destination of Open", "no call of aeadCrypt.Open found", "")
		}
	}

	// ---- K9
	delegate(p, r, "C10", checkC10, "C10.M6", "C08.K9")

	// ---- K10
	checkCipherObjectPerDirection(p, r, "C08.K10")

	// ---- K11
	{
		n := 0
		p.AllCalls(func(call *ast.CallExpr, fi *FuncInfo) {
			f := p.Callee(call)
			if f == nil || f.Pkg() == nil || f.Pkg().Path() != "golang.org/x/crypto/tea" {
				return
			}
			n++
			ok := f.Name() == "NewCipherWithRounds" && len(call.Args) == 2
			if ok {
				t := p.Term(call.Args[1])
				ok = t.IsConst() && t.Int == 16
			}
			r.check(ok, "C08.K11", fi.Name, p.Pos(call), "TEA rounds", "tea.NewCipherWithRounds(key, 16)", "the TEA cipher is not built with 16 rounds: encryption and decryption still agree with each other, but the bytes on the wire differ from the package's 16-round TEA in CFB mode — old peers and other implementations cannot talk to this one")
		})
		if n == 0 {
			r.bad("C08.K11", "NewTEABlockCrypt", "-", "TEA rounds", "no constructor call into x/crypto/tea found", "")
		}
	}

	// ---- K8
	{
		sub := newReport("C14", r.Tier)
		sub.curCfg = r.curCfg
		checkC14(p, sub)
		for _, o := range sub.Obs {
			if o.Rule != "C14.L1" || !(strings.Contains(o.Construct, "blockCrypt.encbuf") || strings.Contains(o.Construct, "blockCrypt.decbuf")) {
				continue
			}
			if o.Status == Discharged {
				r.ok("C08.K8", o.Func, o.Pos, o.Construct, o.Detail)
			} else {
				r.bad("C08.K8", o.Func, o.Pos, o.Construct, o.Detail, o.Witness)
			}
		}
	}
}

func (fi *FuncInfo) paramObj(p *Prog, i int) types.Object {
	k := 0
	var ft *ast.FuncType
	switch {
	case fi.Decl != nil:
		ft = fi.Decl.Type
	case fi.Lit != nil:
		ft = fi.Lit.Type
	default:
		return nil
	}
	if ft.Params == nil {
		return nil
	}
	for _, fl := range ft.Params.List {
		for _, nm := range fl.Names {
			if k == i {
				return p.Info.Defs[nm]
			}
			k++
		}
	}
	return nil
}

// normBody renders a small method body with receiver and parameters renamed,
// for the sibling comparison of Encrypt and Decrypt.
func normBody(p *Prog, fi *FuncInfo) string {
	ren := map[types.Object]string{}
	if rv := p.selfVar(fi); rv != nil {
		ren[rv] = "R"
	}
	for i := 0; ; i++ {
		o := fi.paramObj(p, i)
		if o == nil {
			break
		}
		ren[o] = fmt.Sprintf("P%d", i)
	}
	var render func(e ast.Expr) string
	render = func(e ast.Expr) string {
		switch x := ast.Unparen(e).(type) {
		case *ast.Ident:
			if o := p.Info.Uses[x]; o != nil {
				if s, ok := ren[o]; ok {
					return s
				}
			}
			return x.Name
		case *ast.BasicLit:
			return x.Value
		case *ast.SelectorExpr:
			return render(x.X) + "." + x.Sel.Name
		case *ast.IndexExpr:
			return render(x.X) + "[" + render(x.Index) + "]"
		case *ast.SliceExpr:
			lo, hi := "", ""
			if x.Low != nil {
				lo = render(x.Low)
			}
			if x.High != nil {
				hi = render(x.High)
			}
			return render(x.X) + "[" + lo + ":" + hi + "]"
		case *ast.UnaryExpr:
			return x.Op.String() + render(x.X)
		case *ast.BinaryExpr:
			return "(" + render(x.X) + x.Op.String() + render(x.Y) + ")"
		case *ast.CallExpr:
			var as []string
			for _, a := range x.Args {
				as = append(as, render(a))
			}
			name := render(x.Fun)
			if f := p.Callee(x); f != nil {
				name = f.Name()
				if rt := recvTypeName(f); rt != "" && p.InPkgFunc(f) {
					name = "CALL:" + rt + "." + f.Name()
					return name + "(" + strings.Join(as, ",") + ")"
				}
			}
			return name + "(" + strings.Join(as, ",") + ")"
		}
		return fmt.Sprintf("?%T", e)
	}
	var out []string
	var stmt func(s ast.Stmt)
	stmt = func(s ast.Stmt) {
		switch x := s.(type) {
		case *ast.ExprStmt:
			out = append(out, render(x.X))
		case *ast.IfStmt:
			out = append(out, "if "+render(x.Cond)+" {")
			for _, b := range x.Body.List {
				stmt(b)
			}
			out = append(out, "}")
			if x.Else != nil {
				out = append(out, "else ?")
			}
		case *ast.ReturnStmt:
			out = append(out, "return")
		default:
			out = append(out, fmt.Sprintf("?%T", s))
		}
	}
	for _, s := range fi.Body.List {
		stmt(s)
	}
	return strings.Join(out, ";")
}

func (p *Prog) InPkgFunc(f *types.Func) bool { return f.Pkg() == p.Types }

// ------------------------------------------------------------------ E-CFB

type cfbErr struct {
	pos, where, msg string
	und             bool // the interpreter does not understand the construct (not a verdict)
}

type cfbResult struct {
	ivOK      bool
	ivWhy     string
	errs      []cfbErr
	loopSteps int
	arms      []int64
	steps     int
}

// absSlice: a slice value root[off : off+len] with off = k (+ base if rel); len < 0: open-ended.
type absSlice struct {
	root string // "src", "dst", "buf", "iv"
	k    int64
	rel  bool
	n    int64
}

type cfbState struct {
	vars      map[*types.Var]absSlice
	content   map[[2]int64]int64 // buf region (off,len) -> base-relative offset of the ciphertext block whose encryption it holds
	cursor    int64              // next block to emit, relative to base
	written   map[int64]bool     // dst blocks written (relative offsets)
	remaining int64              // full blocks known to remain at the cursor (for open-ended slices); -1: at least 8 (loop body)
	done      bool
}

func (s *cfbState) clone() *cfbState {
	n := &cfbState{vars: map[*types.Var]absSlice{}, content: map[[2]int64]int64{}, cursor: s.cursor, written: map[int64]bool{}, remaining: s.remaining, done: s.done}
	for k, v := range s.vars {
		n.vars[k] = v
	}
	for k, v := range s.content {
		n.content[k] = v
	}
	for k, v := range s.written {
		n.written[k] = v
	}
	return n
}

func (s *cfbState) shift(c int64) { // base += c
	s.cursor -= c
	for k, v := range s.content {
		s.content[k] = v - c
	}
	nw := map[int64]bool{}
	for k := range s.written {
		nw[k-c] = true
	}
	s.written = nw
	for k, v := range s.vars {
		if v.rel {
			v.k -= c
			s.vars[k] = v
		}
	}
}

func (s *cfbState) summary(regs []*types.Var) string {
	var parts []string
	parts = append(parts, fmt.Sprintf("cursor=base%+d", s.cursor))
	for _, v := range regs {
		a := s.vars[v]
		c, ok := s.content[[2]int64{a.k, a.n}]
		if ok {
			parts = append(parts, fmt.Sprintf("%s=buf[%d:%d] holds E(C@base%+d)", v.Name(), a.k, a.k+a.n, c))
		} else {
			parts = append(parts, fmt.Sprintf("%s=buf[%d:%d] holds nothing known", v.Name(), a.k, a.k+a.n))
		}
	}
	return strings.Join(parts, ", ")
}

type cfbInterp struct {
	p        *Prog
	fi       *FuncInfo
	dec      bool
	bs       int64
	src, dst types.Object
	buf      types.Object
	block    types.Object
	base     *types.Var
	regs     []*types.Var
	res      *cfbResult
	where    string
}

func (ci *cfbInterp) errf(n ast.Node, format string, a ...any) {
	msg := fmt.Sprintf(format, a...)
	und := strings.Contains(msg, "not understood") || strings.Contains(msg, "not recognised") || strings.HasPrefix(msg, "statement of type") || strings.HasPrefix(msg, "assignment to")
	ci.res.errs = append(ci.res.errs, cfbErr{ci.p.Pos(n), ci.where, msg, und})
}

// lin evaluates an int expression as k (+ base).
func (ci *cfbInterp) lin(e ast.Expr) (k int64, rel bool, ok bool) {
	p := ci.p
	if v, isC := p.constVal(e); isC {
		return v, false, true
	}
	switch x := ast.Unparen(e).(type) {
	case *ast.Ident:
		if p.Info.Uses[x] == ci.base {
			return 0, true, true
		}
	case *ast.BinaryExpr:
		a, ar, ok1 := ci.lin(x.X)
		b, br, ok2 := ci.lin(x.Y)
		if ok1 && ok2 {
			switch x.Op {
			case token.ADD:
				if !(ar && br) {
					return a + b, ar || br, true
				}
			case token.SUB:
				if !br {
					return a - b, ar, true
				}
			}
		}
	}
	return 0, false, false
}

func (ci *cfbInterp) slice(st *cfbState, e ast.Expr) (absSlice, bool) {
	p := ci.p
	switch x := ast.Unparen(e).(type) {
	case *ast.Ident:
		o := p.Info.Uses[x]
		switch o {
		case ci.src:
			return absSlice{"src", 0, false, -1}, true
		case ci.dst:
			return absSlice{"dst", 0, false, -1}, true
		case ci.buf:
			return absSlice{"buf", 0, false, -1}, true
		case p.Var("initialVector"):
			return absSlice{"iv", 0, false, -1}, true
		}
		if v, ok := o.(*types.Var); ok {
			if a, ok := st.vars[v]; ok {
				return a, true
			}
		}
	case *ast.SliceExpr:
		a, ok := ci.slice(st, x.X)
		if !ok || x.Max != nil {
			return a, false
		}
		lo, lrel := int64(0), false
		if x.Low != nil {
			var ok2 bool
			lo, lrel, ok2 = ci.lin(x.Low)
			if !ok2 {
				return a, false
			}
		}
		if lrel && a.rel {
			return a, false
		}
		out := absSlice{a.root, a.k + lo, a.rel || lrel, -1}
		if x.High != nil {
			hi, hrel, ok2 := ci.lin(x.High)
			if !ok2 || hrel != lrel {
				return a, false
			}
			out.n = hi - lo
			if out.n < 0 || (a.n >= 0 && hi > a.n) {
				return a, false
			}
		} else if a.n >= 0 {
			out.n = a.n - lo
		}
		return out, true
	}
	return absSlice{}, false
}

// effective block of a data slice operand: offset relative to base, and whether it covers a full block.
func (ci *cfbInterp) blockOf(st *cfbState, a absSlice, n ast.Node, what string) (off int64, full bool, ok bool) {
	if !a.rel {
		// absolute offsets are only meaningful while base is known to be 0: never in these functions after the prologue
		ci.errf(n, "%s is addressed with an offset that does not follow 'base'", what)
		return 0, false, false
	}
	switch {
	case a.n == ci.bs:
		return a.k, true, true
	case a.n < 0:
		// open-ended: a full block iff one is known to remain at this offset
		if st.remaining > 0 || st.remaining == -1 {
			return a.k, true, true
		}
		return a.k, false, true
	}
	ci.errf(n, "%s has length %d, not the block size %d", what, a.n, ci.bs)
	return 0, false, false
}

func (ci *cfbInterp) exec(st *cfbState, s ast.Stmt) bool {
	p := ci.p
	switch x := s.(type) {
	case *ast.AssignStmt:
		// tbl, next = next, tbl
		if len(x.Lhs) == 2 && len(x.Rhs) == 2 && x.Tok == token.ASSIGN {
			a, ok1 := x.Lhs[0].(*ast.Ident)
			b, ok2 := x.Lhs[1].(*ast.Ident)
			c, ok3 := x.Rhs[0].(*ast.Ident)
			d, ok4 := x.Rhs[1].(*ast.Ident)
			if ok1 && ok2 && ok3 && ok4 && p.Info.Uses[a] == p.Info.Uses[d] && p.Info.Uses[b] == p.Info.Uses[c] {
				va, vb := p.Info.Uses[a].(*types.Var), p.Info.Uses[b].(*types.Var)
				st.vars[va], st.vars[vb] = st.vars[vb], st.vars[va]
				return true
			}
		}
		if len(x.Lhs) != 1 || len(x.Rhs) != 1 {
			ci.errf(s, "statement not understood by the CFB interpreter: %s", exprString(x.Lhs[0]))
			return false
		}
		id, _ := x.Lhs[0].(*ast.Ident)
		if id == nil {
			ci.errf(s, "assignment to a non-variable")
			return false
		}
		var v *types.Var
		if x.Tok == token.DEFINE {
			v, _ = p.Info.Defs[id].(*types.Var)
		} else {
			v, _ = p.Info.Uses[id].(*types.Var)
		}
		if v == ci.base {
			switch x.Tok {
			case token.ADD_ASSIGN:
				if c, ok := p.constVal(x.Rhs[0]); ok {
					st.shift(c)
					return true
				}
			case token.ASSIGN:
				// base = base + c
				if k, rel, ok := ci.lin(x.Rhs[0]); ok && rel {
					st.shift(k)
					return true
				}
			}
			ci.errf(s, "'base' is changed by something other than a constant increment")
			return false
		}
		if _, isSlice := v.Type().Underlying().(*types.Slice); isSlice {
			a, ok := ci.slice(st, x.Rhs[0])
			if !ok {
				ci.errf(s, "slice expression not understood: %s", exprString(x.Rhs[0]))
				return false
			}
			st.vars[v] = a
			return true
		}
		ci.errf(s, "assignment to %s inside the unrolled code", v.Name())
		return false
	case *ast.ExprStmt:
		call, ok := x.X.(*ast.CallExpr)
		if !ok {
			ci.errf(s, "expression statement not understood")
			return false
		}
		f := p.Callee(call)
		switch {
		case f != nil && f.Name() == "Encrypt" && recvTypeName(f) == "Block" && len(call.Args) == 2:
			return ci.doEncrypt(st, call)
		case f != nil && isExtFunc(f, "crypto/subtle", "", "XORBytes") && len(call.Args) == 3:
			return ci.doXor(st, call)
		}
		ci.errf(s, "call not understood by the CFB interpreter: %s", exprString(call.Fun))
		return false
	case *ast.BranchStmt:
		if x.Tok == token.FALLTHROUGH {
			return true
		}
	case *ast.EmptyStmt:
		return true
	}
	ci.errf(s, "statement of type %T inside the unrolled code", s)
	return false
}

func (ci *cfbInterp) regOf(st *cfbState, e ast.Expr, n ast.Node) ([2]int64, bool) {
	a, ok := ci.slice(st, e)
	if !ok || a.root != "buf" || a.rel || a.n != ci.bs {
		ci.errf(n, "%s is not a block-sized register inside the scratch buffer", exprString(e))
		return [2]int64{}, false
	}
	return [2]int64{a.k, a.n}, true
}

func (ci *cfbInterp) doEncrypt(st *cfbState, call *ast.CallExpr) bool {
	reg, ok := ci.regOf(st, call.Args[0], call)
	if !ok {
		return false
	}
	a, ok := ci.slice(st, call.Args[1])
	if !ok {
		ci.errf(call, "source of block.Encrypt not understood: %s", exprString(call.Args[1]))
		return false
	}
	wantRoot := "dst"
	if ci.dec {
		wantRoot = "src"
	}
	if a.root != wantRoot {
		ci.errf(call, "the next register is computed from %s, the ciphertext is %s", a.root, wantRoot)
		return false
	}
	off, full, ok := ci.blockOf(st, a, call, "the source of block.Encrypt")
	if !ok {
		return false
	}
	if !full {
		ci.errf(call, "block.Encrypt reads %s where no full block is known to remain (it panics or reads beyond the packet)", exprString(call.Args[1]))
		return false
	}
	if ci.dec {
		if st.written[off] {
			ci.errf(call, "E(src[base%+d]) is computed after dst[base%+d] has been written: when dst aliases src (in-place decryption, as the session does) the ciphertext block is already overwritten by plaintext", off, off)
			return false
		}
		if off < st.cursor {
			ci.errf(call, "block.Encrypt re-reads a block before the cursor (base%+d < base%+d)", off, st.cursor)
			return false
		}
	} else {
		if !st.written[off] {
			ci.errf(call, "E(dst[base%+d]) is computed before dst[base%+d] has been written: the register holds the encryption of stale bytes, not of the ciphertext block", off, off)
			return false
		}
		if off != st.cursor {
			ci.errf(call, "the register is refreshed from block base%+d, the cursor is at base%+d", off, st.cursor)
			return false
		}
	}
	// overwrite: invalidate overlapping registers
	for k := range st.content {
		if k[0] < reg[0]+reg[1] && reg[0] < k[0]+k[1] {
			delete(st.content, k)
		}
	}
	st.content[reg] = off
	if !ci.dec {
		st.cursor += ci.bs
		ci.stepDone(st)
	}
	return true
}

func (ci *cfbInterp) stepDone(st *cfbState) {
	ci.res.steps++
	if st.remaining > 0 {
		st.remaining--
	}
	for k := range st.written {
		if k < st.cursor-ci.bs {
			delete(st.written, k)
		}
	}
}

func (ci *cfbInterp) doXor(st *cfbState, call *ast.CallExpr) bool {
	d, ok1 := ci.slice(st, call.Args[0])
	s, ok2 := ci.slice(st, call.Args[1])
	if !ok1 || !ok2 {
		ci.errf(call, "operands of XORBytes not understood")
		return false
	}
	// the key stream operand may be either of the last two
	if s.root == "buf" {
		ci.errf(call, "XORBytes(dst, register, src): operand order differs from the sibling steps")
		return false
	}
	reg, ok := ci.regOf(st, call.Args[2], call)
	if !ok {
		return false
	}
	if d.root != "dst" || s.root != "src" {
		ci.errf(call, "XORBytes writes %s from %s (expected dst from src)", d.root, s.root)
		return false
	}
	doff, dfull, ok1 := ci.blockOf(st, d, call, "the destination of XORBytes")
	soff, sfull, ok2 := ci.blockOf(st, s, call, "the source of XORBytes")
	if !ok1 || !ok2 {
		return false
	}
	if doff != soff {
		ci.errf(call, "XORBytes writes dst[base%+d] from src[base%+d]", doff, soff)
		return false
	}
	if doff != st.cursor {
		ci.errf(call, "XORBytes processes the block at base%+d, the next block in sequence is base%+d (a block is skipped or processed twice)", doff, st.cursor)
		return false
	}
	c, have := st.content[reg]
	if !have || c != st.cursor-ci.bs {
		held := "nothing known"
		if have {
			held = fmt.Sprintf("E(C@base%+d)", c)
		}
		ci.errf(call, "block base%+d is xored with register %s, which holds %s; CFB requires E(C@base%+d), the encryption of the preceding ciphertext block", st.cursor, exprString(call.Args[2]), held, st.cursor-ci.bs)
		return false
	}
	if dfull != sfull {
		ci.errf(call, "destination and source of XORBytes differ in extent")
		return false
	}
	if !sfull {
		// tail: fewer than bs bytes remain; XORBytes handles min(len(src[base:]), bs)
		if st.remaining != 0 {
			ci.errf(call, "the tail is processed while full blocks may remain")
			return false
		}
		st.done = true
		return true
	}
	st.written[doff] = true
	if ci.dec {
		// the next register must already exist (computed from src before this write)
		foundNext := false
		for _, v := range st.content {
			if v == st.cursor {
				foundNext = true
			}
		}
		if !foundNext {
			// it may still be computed later from src — which is flagged there when dst may alias src
		}
		st.cursor += ci.bs
		ci.stepDone(st)
	}
	return true
}

func interpretCFB(p *Prog, fi *FuncInfo, dec bool, bs int64) *cfbResult {
	res := &cfbResult{}
	ci := &cfbInterp{p: p, fi: fi, dec: dec, bs: bs, res: res}
	if fi.Obj.Type().(*types.Signature).Params().Len() != 4 {
		res.errs = append(res.errs, cfbErr{p.Pos(fi.Node), "signature", "expected (block, dst, src, buf)", true})
		return res
	}
	ci.block, ci.dst, ci.src, ci.buf = fi.paramObj(p, 0), fi.paramObj(p, 1), fi.paramObj(p, 2), fi.paramObj(p, 3)
	st := &cfbState{vars: map[*types.Var]absSlice{}, content: map[[2]int64]int64{}, written: map[int64]bool{}}

	// ---- prologue: everything before the loop
	var loop *ast.RangeStmt
	var floop *ast.ForStmt // the group loop written as `for base+G <= len(src)`
	var sw *ast.SwitchStmt
	var nVar, repeatVar, leftVar *types.Var
	var shiftBits int64 = -1
	ci.where = "prologue"
	stage := 0
	for _, s := range fi.Body.List {
		switch x := s.(type) {
		case *ast.RangeStmt:
			if stage != 0 {
				ci.errf(s, "second loop")
			}
			loop = x
			stage = 1
			continue
		case *ast.ForStmt:
			if stage != 0 {
				ci.errf(s, "second loop")
			}
			floop = x
			stage = 1
			continue
		case *ast.SwitchStmt:
			if stage > 1 {
				ci.errf(s, "second switch")
			}
			sw = x
			stage = 2
			continue
		}
		if stage != 0 {
			ci.errf(s, "statement after the unrolled loop / switch: not covered by the CFB law")
			continue
		}
		// prologue statements
		if as, ok := s.(*ast.AssignStmt); ok && as.Tok == token.DEFINE && len(as.Lhs) == 1 && len(as.Rhs) == 1 {
			id := as.Lhs[0].(*ast.Ident)
			v, _ := p.Info.Defs[id].(*types.Var)
			if _, isSlice := v.Type().Underlying().(*types.Slice); isSlice {
				a, ok := ci.slice(st, as.Rhs[0])
				if !ok || a.root != "buf" || a.n != bs {
					ci.errf(s, "register %s is not a block of the scratch buffer", v.Name())
					continue
				}
				for _, o := range ci.regs {
					b := st.vars[o]
					if a.k < b.k+b.n && b.k < a.k+a.n {
						ci.errf(s, "registers %s and %s overlap in the scratch buffer", v.Name(), o.Name())
					}
				}
				st.vars[v] = a
				ci.regs = append(ci.regs, v)
				continue
			}
			t := p.Term(as.Rhs[0])
			switch {
			case t.IsConst() && t.Int == 0 && ci.base == nil:
				ci.base = v
			case t.Op == ">>" && t.Args[0].Op == "len" && t.Args[0].Args[0].Op == "var" && t.Args[0].Args[0].Obj == ci.src && t.Args[1].IsConst():
				nVar, shiftBits = v, t.Args[1].Int
			case t.Op == ">>" && nVar != nil && t.Args[0].Op == "var" && t.Args[0].Obj == nVar && t.Args[1].IsConst() && t.Args[1].Int == 3:
				repeatVar = v
			case t.Op == "&" && nVar != nil && ((t.Args[0].Op == "var" && t.Args[0].Obj == nVar && t.Args[1].IsConst() && t.Args[1].Int == 7) || (t.Args[1].Op == "var" && t.Args[1].Obj == nVar && t.Args[0].IsConst() && t.Args[0].Int == 7)):
				leftVar = v
			default:
				ci.errf(s, "prologue assignment not understood: %s := %s", v.Name(), exprString(as.Rhs[0]))
			}
			continue
		}
		if es, ok := s.(*ast.ExprStmt); ok {
			if call, ok := es.X.(*ast.CallExpr); ok {
				if f := p.Callee(call); f != nil && f.Name() == "Encrypt" && recvTypeName(f) == "Block" && len(call.Args) == 2 {
					reg, ok := ci.regOf(st, call.Args[0], call)
					src, ok2 := ci.slice(st, call.Args[1])
					if ok && ok2 && src.root == "iv" && src.k == 0 && !src.rel {
						st.content[reg] = -bs // the IV is the virtual block preceding offset 0 (base = 0 here)
						res.ivOK = true
					} else {
						res.ivWhy = "the prologue encrypts " + exprString(call.Args[1]) + " instead of initialVector"
					}
					continue
				}
			}
		}
		ci.errf(s, "prologue statement not understood")
	}
	if !res.ivOK && res.ivWhy == "" {
		res.ivWhy = "no block.Encrypt(register, initialVector) in the prologue"
	}
	loopBody := (*ast.BlockStmt)(nil)
	var loopNode ast.Node
	if loop != nil {
		loopBody, loopNode = loop.Body, loop
	} else if floop != nil {
		loopBody, loopNode = floop.Body, floop
	}
	if ci.base == nil || nVar == nil || (repeatVar == nil && floop == nil) || leftVar == nil || loopBody == nil || sw == nil {
		res.errs = append(res.errs, cfbErr{p.Pos(fi.Node), "prologue", fmt.Sprintf("structure not recognised (base %v, n %v, repeat %v, left %v, loop %v, switch %v)", ci.base != nil, nVar != nil, repeatVar != nil, leftVar != nil, loop != nil, sw != nil), true})
		return res
	}
	if int64(1)<<uint(shiftBits) != bs {
		res.errs = append(res.errs, cfbErr{p.Pos(fi.Node), "prologue", fmt.Sprintf("the block count is len(src) >> %d, the block size is %d", shiftBits, bs), false})
	}
	if len(ci.regs) == 0 || (dec && len(ci.regs) < 2) {
		res.errs = append(res.errs, cfbErr{p.Pos(fi.Node), "prologue", "registers not recognised", true})
		return res
	}
	st.cursor = 0

	// ---- loop: for range repeat
	ci.where = "loop body"
	if loop != nil {
		if t := p.Term(loop.X); !(t.Op == "var" && t.Obj == repeatVar) || loop.Key != nil {
			ci.errf(loop, "the loop does not run exactly n>>3 times")
		}
	} else {
		// for base+G <= len(src): with base advancing by G per iteration (checked below through the state the body
		// re-establishes) this runs floor(len(src)/G) times, which is n>>3 exactly when G is eight blocks
		okForm, verdict := false, ""
		if floop.Init == nil && floop.Post == nil && floop.Cond != nil {
			ct := normTerm(p.Term(floop.Cond))
			if (ct.Op == "<=" || ct.Op == "<") && len(ct.Args) == 2 {
				d := newLinear()
				d.addScaled(Lin(ct.Args[1]), 1)
				d.addScaled(Lin(ct.Args[0]), -1)
				lenSrc := mk("len", tVar(ci.src))
				want := newLinear()
				want.addScaled(Lin(lenSrc), 1)
				want.addScaled(Lin(tVar(ci.base)), -1)
				rest := newLinear()
				rest.addScaled(d, 1)
				rest.addScaled(want, -1)
				if nonZeroCoefs(rest) == 0 {
					g := -rest.C
					switch {
					case ct.Op == "<=" && g == 8*bs:
						okForm = true
					case ct.Op == "<" && g == 8*bs:
						verdict = fmt.Sprintf("the group loop runs while base+%d < len(src): when len(src) is an exact multiple of %d the last group of eight blocks is not processed (the switch on n & 7 handles no block then) — %d bytes stay unencrypted/undecrypted", g, 8*bs, 8*bs-bs)
					default:
						verdict = fmt.Sprintf("the group loop runs while base+%d %s len(src); eight blocks are %d bytes: the number of groups is not n>>3", g, ct.Op, 8*bs)
					}
				}
			}
		}
		if verdict != "" {
			ci.errf(floop, "%s", verdict)
		} else if !okForm {
			res.errs = append(res.errs, cfbErr{p.Pos(floop), "loop", "loop condition not understood", true})
			return res
		}
	}
	head := st.clone()
	head.remaining = -1
	body := head.clone()
	before := res.steps
	okBody := true
	for _, s := range loopBody.List {
		if !ci.exec(body, s) {
			okBody = false
			break
		}
	}
	res.loopSteps = res.steps - before
	if okBody {
		if res.loopSteps != 8 {
			ci.errf(loopNode, "one loop iteration performs %d block steps, the group size implied by n>>3 / n&7 is 8", res.loopSteps)
		}
		// the invariant: same cursor relative to base, same register contents, same register names
		a, b := head.summary(ci.regs), body.summary(ci.regs)
		// only the live register matters: the one holding E(C@cursor-bs)
		if !sameLive(head, body, ci.regs, bs) {
			ci.errf(loopNode, "the loop body does not re-establish its entry state: at entry {%s}, after one iteration {%s}", a, b)
		}
	}

	// ---- switch
	ci.where = "switch"
	if t := p.Term(sw.Tag); !(t.Op == "var" && t.Obj == leftVar) {
		ci.errf(sw, "the switch is not on n & 7")
	}
	clauses := sw.Body.List
	seen := map[int64]bool{}
	for i, cst := range clauses {
		cc := cst.(*ast.CaseClause)
		if cc.List == nil {
			ci.errf(cc, "default arm in the switch on n & 7")
			continue
		}
		for _, e := range cc.List {
			k, ok := p.constVal(e)
			if !ok {
				ci.errf(cc, "non-constant case")
				continue
			}
			seen[k] = true
			res.arms = append(res.arms, k)
			ci.where = fmt.Sprintf("switch arm %d", k)
			cs := st.clone()
			cs.remaining = k
			before := res.steps
			ok = true
			// follow the fallthrough chain
			for j := i; j < len(clauses) && ok; j++ {
				cj := clauses[j].(*ast.CaseClause)
				ft := false
				for _, s := range cj.Body {
					if bs, isB := s.(*ast.BranchStmt); isB && bs.Tok == token.FALLTHROUGH {
						ft = true
					}
					if !ci.exec(cs, s) {
						ok = false
						break
					}
				}
				if !ft {
					break
				}
			}
			if !ok {
				continue
			}
			steps := int64(res.steps - before)
			if steps != k {
				ci.errf(cc, "arm %d performs %d full-block steps before the tail (n & 7 = %d blocks remain): %s", k, steps, k, map[bool]string{true: "blocks are left unprocessed", false: "the code runs past the packet"}[steps < k])
			}
			if !cs.done {
				ci.errf(cc, "arm %d does not end with the tail xor: the last len(src) %% %d bytes are not processed", k, bs)
			}
		}
	}
	for k := int64(0); k < 8; k++ {
		if !seen[k] {
			ci.errf(sw, "no arm for n & 7 == %d: packets of that length class are left (partly) unprocessed", k)
		}
	}
	sort.Slice(res.arms, func(i, j int) bool { return res.arms[i] < res.arms[j] })
	return res
}

// sameLive: both states have the cursor at the same distance from base and a
// register of the same name holding E(C@cursor-bs); for decryption the other
// register's name must match too (the code alternates them).
func sameLive(a, b *cfbState, regs []*types.Var, bs int64) bool {
	if a.cursor != b.cursor {
		return false
	}
	live := func(s *cfbState) string {
		for _, v := range regs {
			r := s.vars[v]
			if c, ok := s.content[[2]int64{r.k, r.n}]; ok && c == s.cursor-bs {
				return fmt.Sprintf("%s@%d", v.Name(), r.k)
			}
		}
		return "?"
	}
	la, lb := live(a), live(b)
	return la != "?" && la == lb
}

// checkCipherScratch: the two feedback registers of a CFB cipher object are separate allocations of the sizes the
// unrolled routines slice (encbuf: one block, decbuf: two) — they are guarded by different mutexes (encMu / decMu), so
// memory shared between them is accessed concurrently by an encryptor and a decryptor. Shared by C08.K5 and C14.L9.
func checkCipherScratch(p *Prog, r *Report, rule string) {
	// the function that builds the cipher object: the one holding the blockCrypt literal (newBlockCrypt, or a
	// constructor it forwards to)
	fi := p.FuncByName("newBlockCrypt")
	for _, cand := range p.funcs {
		if cand.Body == nil || cand.Lit != nil {
			continue
		}
		has := false
		ast.Inspect(cand.Body, func(n ast.Node) bool {
			if cl, ok := n.(*ast.CompositeLit); ok {
				if nt, okN := derefNamed(p.Info.TypeOf(cl)); okN && nt.Obj().Name() == "blockCrypt" && nt.Obj().Pkg() == p.Types {
					has = true
				}
			}
			return true
		})
		if has {
			fi = cand
		}
	}
	okE, okD := false, false
	ast.Inspect(fi.Body, func(n ast.Node) bool {
		kv, ok := n.(*ast.KeyValueExpr)
		if !ok {
			return true
		}
		key, _ := kv.Key.(*ast.Ident)
		call, isC := kv.Value.(*ast.CallExpr)
		if key == nil || !isC || p.BuiltinName(call) != "make" || len(call.Args) < 2 {
			return true
		}
		sz := p.Term(call.Args[1])
		isBS := func(t *Term) bool {
			if t.Op == "var" {
				if v, ok := t.Obj.(*types.Var); ok {
					as := p.Assignments(fi, v)
					if len(as) == 1 && as[0].Rhs != nil {
						t = p.Term(as[0].Rhs)
					}
				}
			}
			return t.Op == "call" && t.Obj != nil && t.Obj.Name() == "BlockSize"
		}
		switch key.Name {
		case "encbuf":
			okE = isBS(sz)
		case "decbuf":
			okD = sz.Op == "*" && ((sz.Args[0].IsConst() && sz.Args[0].Int == 2 && isBS(sz.Args[1])) || (sz.Args[1].IsConst() && sz.Args[1].Int == 2 && isBS(sz.Args[0])))
		}
		return true
	})
	r.check(okE && okD, rule, fi.Name, p.Pos(fi.Node), "scratch sizes", "encbuf = make([]byte, bs), decbuf = make([]byte, 2*bs)", fmt.Sprintf("encbuf has bs bytes: %v; decbuf has 2*bs bytes: %v — the registers tbl/next overlap or the slicing panics", okE, okD))
}
