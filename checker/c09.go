package main

import (
	"fmt"
	"go/ast"
	"go/token"
	"go/types"
	"golang.org/x/tools/go/ssa"
	"os"
	"path/filepath"
	"regexp"
	"sort"
	"strconv"
	"strings"

	"golang.org/x/tools/go/cfg"
)

func init() {
	register(&propCheck{
		id:  "C09",
		run: checkC09,
		configs: map[string][]string{
			"quick":    {"linux64"},
			"thorough": {"linux64", "generic", "linux32"},
		},
		explain: "Both ends of every test are this library, so the independent oracle is the specification kept in the repository: the README field list and the Wireshark dissector. Layout tables " +
			"(field, offset, width) are extracted by constant evaluation of slice offsets from the encoder (segment.encode), the parser (KCP.Input), the FEC sealers and accessors, and compared pairwise with " +
			"the tables parsed from wireshark/kcp_dissector.lua and README.md; the command set, FEC type values, size-field formula, id advance, type/position pairing in the encoder, nonce-before-encrypt " +
			"ordering and entropy advance are decided by shape/ordering rules on the typed AST and CFG. Statistical nonce quality and entropy failure are not decided.",
		assume: []string{
			"README.md and wireshark/kcp_dissector.lua are the specification (if they are reformatted beyond what the purpose-built reader understands the check is UNDECIDED, not a violation)",
			"io.ReadFull(entropy, ..) does not fail (its error is ignored by fillRand)",
		},
	})
}

type layoutField struct {
	Name  string
	Off   int64
	Width int64
	Pos   token.Pos
}

func widthOfPut(name string) int64 {
	switch {
	case strings.HasSuffix(name, "Uint16"):
		return 2
	case strings.HasSuffix(name, "Uint32"):
		return 4
	case strings.HasSuffix(name, "Uint64"):
		return 8
	}
	return 0
}

// sliceOffsetConst: e is X or X[c:] with X the identifier `base`; returns c.
func (p *Prog) sliceOffsetConst(e ast.Expr, base *types.Var) (int64, bool) {
	e = ast.Unparen(e)
	if id, ok := e.(*ast.Ident); ok && p.Info.Uses[id] == base {
		return 0, true
	}
	if se, ok := e.(*ast.SliceExpr); ok {
		if id, ok := ast.Unparen(se.X).(*ast.Ident); ok && p.Info.Uses[id] == base && se.High == nil {
			if se.Low == nil {
				return 0, true
			}
			if v, ok := p.constVal(se.Low); ok {
				return v, true
			}
		}
	}
	return 0, false
}

// writerTable extracts (field, offset, width) from a function writing a header
// into its []byte parameter `buf`: PutUintN(buf[c:], X.f) and buf[c] = X.f.
func (p *Prog) writerTable(fi *FuncInfo, buf *types.Var) []layoutField {
	var out []layoutField
	inspectBody(fi, func(n ast.Node) bool {
		switch x := n.(type) {
		case *ast.CallExpr:
			f := p.Callee(x)
			if f == nil || f.Pkg() == nil || f.Pkg().Path() != "encoding/binary" || !strings.HasPrefix(f.Name(), "PutUint") || len(x.Args) != 2 {
				return true
			}
			off, ok := p.sliceOffsetConst(x.Args[0], buf)
			if !ok {
				return true
			}
			out = append(out, layoutField{Name: valueNameIn(p, fi, x.Args[1]), Off: off, Width: widthOfPut(f.Name()), Pos: x.Pos()})
		case *ast.AssignStmt:
			// ptr[4] = v, also in a parallel assignment ptr[4], ptr[5] = a, b
			if len(x.Lhs) == len(x.Rhs) && x.Tok == token.ASSIGN {
				for i := range x.Lhs {
					if ix, ok := ast.Unparen(x.Lhs[i]).(*ast.IndexExpr); ok {
						if id, ok := ast.Unparen(ix.X).(*ast.Ident); ok && p.Info.Uses[id] == buf {
							if c, ok := p.constVal(ix.Index); ok {
								out = append(out, layoutField{Name: valueNameIn(p, fi, x.Rhs[i]), Off: c, Width: 1, Pos: x.Pos()})
							}
						}
					}
				}
			}
		}
		return true
	})
	sort.Slice(out, func(i, j int) bool { return out[i].Off < out[j].Off })
	return out
}

// valueName names the value written: the field selected (seg.sn -> "sn"),
// len(seg.data) -> "len", a constant -> its value.
// valueNameIn: valueName with a local defined once in fi resolved to its definition (payloadLen := uint32(len(seg.data))).
func valueNameIn(p *Prog, fi *FuncInfo, e ast.Expr) string {
	t := p.Term(e)
	for t.Op == "conv" {
		t = t.Args[0]
	}
	if t.Op == "var" {
		if v, ok := t.Obj.(*types.Var); ok && !p.isParam(v) {
			if as := p.Assignments(rootFuncInfo(fi), v); len(as) == 1 && as[0].Rhs != nil {
				return valueName(p, as[0].Rhs)
			}
		}
	}
	return valueName(p, e)
}

func valueName(p *Prog, e ast.Expr) string {
	t := p.Term(e)
	for t.Op == "conv" {
		t = t.Args[0]
	}
	switch t.Op {
	case "fld":
		return t.Obj.Name()
	case "len":
		return "len"
	case "const":
		return fmt.Sprintf("0x%x", t.Int)
	case "var":
		return t.Obj.Name()
	}
	return pretty(t.Key())
}

func checkC09(p *Prog, r *Report) {
	r.rule("C09.L1", "KCP header: the encoder table (segment.encode) = the parser table (KCP.Input) = the dissector table (kcp_dissector.lua) = the README field order; little endian; IKCP_OVERHEAD = end of the last field; IKCP_SN_OFFSET = offset of sn; the len field is len(seg.data) and exactly that many bytes follow", 20)
	r.rule("C09.L2", "the command constants = the set accepted by Input's validation = the arms of its switch = the values named in the dissector", 4)
	r.rule("C09.L3", "FEC header: seqid u32 @0 and type u16 @4 (little endian) with types 0xF1/0xF2/0xF3 as in the README; accessors use 0/4/6; the size field at payloadOffset holds len(payload)+2 and payloadOffset = headerOffset + fecHeaderSize; the receiver strips fecHeaderSize+2", 9)
	r.rule("C09.L5", "every function that writes the encoder's next id into a header advances it by one modulo paws afterwards; the OOB sealer writes the reserved id and does not advance", 3)
	r.rule("C09.L6", "in encode: one sealData per call; when the group is complete every path runs exactly one of {seal every parity shard, skipParity()}, the parity slice is shardCache[dataShards:], and the group counters are reset", 3)
	r.rule("C09.L7", "every BlockCrypt.Encrypt / aeadCrypt.Seal in the output path (postProcess and the helpers it calls) is preceded on every path by fillRand on the nonce prefix of the same buffer, with no other encryption of that buffer in between", 3)
	r.rule("C09.L12", "parity is the Reed-Solomon code every decoder expects: all construction sites of the codec (encoder, decoder, retune) pass the same options (= C07.F11) — an option on one side only (the XOR matrix for one parity shard) changes the parity bytes and nothing else", 1)
	r.rule("C09.L14", "the FEC configuration the application asked for is the one on the wire: wherever a constructor hands its dataShards / parityShards parameter to another function of the package, it arrives in the parameter of the same name — two adjacent ints transposed give a P+D cycle with parity packets at data positions", 6)
	r.rule("C09.L13", "every datagram that leaves under a cipher carries a fresh nonce: in the transmit path each arm of the cipher dispatch other than 'no cipher' fills the nonce prefix of the packet, and inside its loop over the parity packets that of each parity packet — an arm that only checksums (a pass-through cipher) sends stale pool bytes, or zeros, in the nonce field", 2)
	r.rule("C09.L11", "the frame is produced by one encryptor at a time: the CFB feedback registers of a cipher object (shared by all sessions of a listener, or by sessions given the same BlockCrypt) are read and written under its mutex only (= C14.L1 for blockCrypt.encbuf/decbuf) — interleaved encryptions leave datagrams whose checksum field does not match their bytes under independent decryption", 4)
	r.rule("C09.L10", "every datagram is handed to the socket once: a batch write that may accept fewer messages than offered is continued at the first message not yet accepted (the queue is re-sliced by the returned count, or the next call starts at the running count) — restarting at message 0 emits the head of the batch again, byte for byte, nonce included", 1)
	r.rule("C09.L9", "parity is computed over the zero-padded size-prefixed payloads: size prefix written before the copy into the group, tails cleared to maxSize, shards cut [payloadOffset:maxSize], maxSize per group (= C07.F2 encode side, C07.F6)", 6)
	r.rule("C09.L8", "the entropy sources advance their state on every Read before producing output, inside their mutex", 2)
	{
		sub := newReport("C07", r.Tier)
		sub.curCfg = r.curCfg
		checkC07(p, sub)
		for _, o := range sub.Obs {
			if !(o.Rule == "C07.F6" || (o.Rule == "C07.F2" && strings.Contains(o.Func, "fecEncoder"))) {
				continue
			}
			if o.Status == Discharged {
				r.ok("C09.L9", o.Func, o.Pos, o.Construct, o.Detail)
			} else {
				r.bad("C09.L9", o.Func, o.Pos, o.Construct, o.Detail, o.Witness)
			}
		}
	}

	// the checksum algorithm and its coverage are part of the documented frame (README: CRC32, IEEE): = C06.I1 (CRC gate
	// recognised only for crc32.ChecksumIEEE) and C06.I4 (coverage, writer/reader agreement)
	delegate(p, r, "C06", checkC06, "C06.I4", "C09.L4")
	delegate(p, r, "C06", checkC06, "C06.I1", "C09.L4")
	// every advance of the encoder id (skipParity included) is reduced modulo paws: = C12.K5
	{
		key := "delegate:C12:" + r.curCfg
		sub, _ := p.memo[key].(*Report)
		if sub == nil {
			sub = newReport("C12", r.Tier)
			sub.curCfg = r.curCfg
			checkC12(p, sub)
			p.memo[key] = sub
		}
		for _, o := range sub.Obs {
			if o.Rule != "C12.K5" || !strings.Contains(o.Construct, "fecEncoder.next") {
				continue
			}
			if o.Status == Discharged {
				r.ok("C09.L5", o.Func, o.Pos, o.Construct, o.Detail)
			} else {
				r.bad("C09.L5", o.Func, o.Pos, o.Construct, o.Detail+": an id outside [0, paws) goes on the wire (for some ratios the value reserved for out-of-band packets), ids repeat or are skipped within a wrap period", o.Witness)
			}
		}
	}
	checkKCPHeaderLayout(p, r)
	checkCommands(p, r)
	checkFECLayout(p, r)
	checkIDAdvance(p, r)
	checkTypePosition(p, r)
	checkNonceBeforeEncrypt(p, r)
	checkEntropyAdvance(p, r)
	checkBatchWriteContinues(p, r)
	delegate(p, r, "C07", checkC07, "C07.F11", "C09.L12")
	checkEveryCipherArmFillsNonce(p, r)
	checkShardParamsInOrder(p, r)
	{
		key := "delegate:C14:" + r.curCfg
		sub, _ := p.memo[key].(*Report)
		if sub == nil {
			sub = newReport("C14", r.Tier)
			sub.curCfg = r.curCfg
			checkC14(p, sub)
			p.memo[key] = sub
		}
		for _, o := range sub.Obs {
			if o.Rule != "C14.L1" || !(strings.Contains(o.Construct, "blockCrypt.encbuf") || strings.Contains(o.Construct, "blockCrypt.decbuf")) {
				continue
			}
			if o.Status == Discharged {
				r.ok("C09.L11", o.Func, o.Pos, o.Construct, o.Detail)
			} else {
				r.bad("C09.L11", o.Func, o.Pos, o.Construct, o.Detail, o.Witness)
			}
		}
	}
}

func firstByteSliceParam(p *Prog, fi *FuncInfo) *types.Var {
	var ft *ast.FuncType
	if fi.Decl != nil {
		ft = fi.Decl.Type
	} else {
		ft = fi.Lit.Type
	}
	for _, fl := range ft.Params.List {
		for _, nm := range fl.Names {
			if v, ok := p.Info.Defs[nm].(*types.Var); ok && isByteSliceLike(v.Type()) {
				return v
			}
		}
	}
	return nil
}

func checkKCPHeaderLayout(p *Prog, r *Report) {
	enc := p.FuncOf(p.Method("segment", "encode"))
	ptr := firstByteSliceParam(p, enc)
	if ptr == nil {
		r.brokenf("segment.encode has no []byte parameter")
		return
	}
	wt := p.writerTable(enc, ptr)
	overhead := p.ConstInt("IKCP_OVERHEAD")
	snOff := p.ConstInt("IKCP_SN_OFFSET")
	// contiguity and total size
	end := int64(0)
	contiguous := true
	for _, f := range wt {
		if f.Off != end {
			contiguous = false
		}
		end = f.Off + f.Width
	}
	r.check(contiguous && end == overhead, "C09.L1", enc.Name, p.Pos(enc.Node), "encoder table contiguous, ends at IKCP_OVERHEAD", fmt.Sprintf("%d fields, %d bytes", len(wt), end), fmt.Sprintf("the encoder writes %v: not contiguous or not ending at IKCP_OVERHEAD=%d", describeTable(wt), overhead))
	for _, f := range wt {
		if f.Name == "sn" {
			r.check(f.Off == snOff, "C09.L1", enc.Name, p.PosOf(f.Pos), "IKCP_SN_OFFSET", fmt.Sprintf("sn at %d", f.Off), fmt.Sprintf("sn is written at offset %d but IKCP_SN_OFFSET=%d (the listener reads the sequence number there)", f.Off, snOff))
		}
	}
	// encode returns ptr[IKCP_OVERHEAD:]
	retOK := false
	inspectBody(enc, func(n ast.Node) bool {
		if ret, ok := n.(*ast.ReturnStmt); ok && len(ret.Results) == 1 {
			if off, ok := p.sliceOffsetConst(ret.Results[0], ptr); ok && off == overhead {
				retOK = true
			}
		}
		return true
	})
	r.check(retOK, "C09.L1", enc.Name, p.Pos(enc.Node), "encode advances by IKCP_OVERHEAD", "returns ptr[IKCP_OVERHEAD:]", "encode does not return the buffer advanced by IKCP_OVERHEAD")

	// parser table
	input := p.FuncOf(p.Method("KCP", "Input"))
	data := firstByteSliceParam(p, input)
	type rd struct {
		v     *types.Var
		off   int64
		width int64
		pos   token.Pos
	}
	var reads []rd
	inspectBody(input, func(n ast.Node) bool {
		as, ok := n.(*ast.AssignStmt)
		if !ok || len(as.Lhs) != 1 || len(as.Rhs) != 1 {
			return true
		}
		id, ok := as.Lhs[0].(*ast.Ident)
		if !ok {
			return true
		}
		v, _ := p.Info.Defs[id].(*types.Var)
		if v == nil {
			return true
		}
		switch x := ast.Unparen(as.Rhs[0]).(type) {
		case *ast.CallExpr:
			f := p.Callee(x)
			if f != nil && f.Pkg() != nil && f.Pkg().Path() == "encoding/binary" && strings.HasPrefix(f.Name(), "Uint") && len(x.Args) == 1 {
				if off, ok := p.sliceOffsetConst(x.Args[0], data); ok {
					reads = append(reads, rd{v, off, widthOfPut(f.Name()), as.Pos()})
				}
			}
		case *ast.IndexExpr:
			if bid, ok := ast.Unparen(x.X).(*ast.Ident); ok && p.Info.Uses[bid] == data {
				if c, ok := p.constVal(x.Index); ok {
					reads = append(reads, rd{v, c, 1, as.Pos()})
				}
			}
		}
		return true
	})
	// map parser locals to segment fields through the composite literal; `len` through data[:v]
	fieldOf := map[*types.Var]string{}
	ast.Inspect(input.Body, func(n ast.Node) bool {
		switch x := n.(type) {
		case *ast.CompositeLit:
			if p.isPkgNamed(p.Info.TypeOf(x), "segment") {
				for _, el := range x.Elts {
					if kv, ok := el.(*ast.KeyValueExpr); ok {
						if k, ok := kv.Key.(*ast.Ident); ok {
							if vid, ok := ast.Unparen(kv.Value).(*ast.Ident); ok {
								if v, ok := p.Info.Uses[vid].(*types.Var); ok {
									fieldOf[v] = k.Name
								}
							}
						}
					}
				}
			}
		case *ast.SliceExpr:
			if bid, ok := ast.Unparen(x.X).(*ast.Ident); ok && p.Info.Uses[bid] == data && x.High != nil && x.Low == nil {
				if vid, ok := ast.Unparen(x.High).(*ast.Ident); ok {
					if v, ok := p.Info.Uses[vid].(*types.Var); ok {
						fieldOf[v] = "len"
					}
				}
			}
		}
		return true
	})
	var pt []layoutField
	for _, x := range reads {
		name := fieldOf[x.v]
		if name == "" {
			// a header field that is parsed into a local of the field's name but not stored
			// with the segment (conv, cmd, wnd, una need not be kept) is still the same field
			if st := structOf(p.Named("segment").Underlying()); st != nil {
				for i := 0; i < st.NumFields(); i++ {
					if st.Field(i).Name() == x.v.Name() {
						name = x.v.Name()
					}
				}
			}
		}
		if name == "" {
			name = "?" + x.v.Name()
		}
		pt = append(pt, layoutField{Name: name, Off: x.off, Width: x.width, Pos: x.pos})
	}
	sort.Slice(pt, func(i, j int) bool { return pt[i].Off < pt[j].Off })
	compareTables(p, r, "C09.L1", "encoder(segment.encode)", wt, "parser(KCP.Input)", pt, enc.Name, true)
	// the parser consumes IKCP_OVERHEAD then exactly `len` bytes
	adv := map[string]bool{}
	inspectBody(input, func(n ast.Node) bool {
		as, ok := n.(*ast.AssignStmt)
		if !ok || len(as.Lhs) != 1 || len(as.Rhs) != 1 {
			return true
		}
		if id, ok := as.Lhs[0].(*ast.Ident); !ok || p.Info.Uses[id] != data {
			return true
		}
		if se, ok := ast.Unparen(as.Rhs[0]).(*ast.SliceExpr); ok && se.High == nil && se.Low != nil {
			if bid, ok := ast.Unparen(se.X).(*ast.Ident); ok && p.Info.Uses[bid] == data {
				if c, ok := p.constVal(se.Low); ok && c == overhead {
					adv["header"] = true
				} else if vid, ok := ast.Unparen(se.Low).(*ast.Ident); ok {
					if v, ok := p.Info.Uses[vid].(*types.Var); ok && fieldOf[v] == "len" {
						adv["payload"] = true
					}
				}
			}
		}
		return true
	})
	r.check(adv["header"] && adv["payload"], "C09.L1", input.Name, p.Pos(input.Node), "parser advances by IKCP_OVERHEAD + len", "data = data[IKCP_OVERHEAD:] then data = data[len:]", "the parser does not step over exactly one header and len payload bytes per segment")
	// the writer copies exactly len(seg.data) bytes after the header (flush)
	checkPayloadFollowsHeader(p, r)

	// dissector
	lua, err := os.ReadFile(filepath.Join(p.RepoDir, "wireshark", "kcp_dissector.lua"))
	if err != nil {
		r.undecided("C09.L1", "wireshark/kcp_dissector.lua", "-", "dissector table", "file not readable: "+err.Error())
	} else {
		dt, hdr, cmds := parseDissector(string(lua))
		if len(dt) < 5 {
			r.undecided("C09.L1", "wireshark/kcp_dissector.lua", "-", "dissector table", "the dissector could not be parsed (reformatted?)")
		} else {
			compareTables(p, r, "C09.L1", "encoder(segment.encode)", wt, "dissector(kcp_dissector.lua)", dt, "wireshark/kcp_dissector.lua", true)
			r.check(hdr == overhead, "C09.L1", "wireshark/kcp_dissector.lua", "-", "dissector header size", fmt.Sprintf("%d", hdr), fmt.Sprintf("the dissector steps %d bytes per header, the code uses IKCP_OVERHEAD=%d", hdr, overhead))
			// L2 part: command values
			want := map[int64]bool{}
			for _, c := range []string{"IKCP_CMD_PUSH", "IKCP_CMD_ACK", "IKCP_CMD_WASK", "IKCP_CMD_WINS"} {
				want[p.ConstInt(c)] = true
			}
			same := len(cmds) == len(want)
			for _, c := range cmds {
				if !want[c] {
					same = false
				}
			}
			r.check(same, "C09.L2", "wireshark/kcp_dissector.lua", "-", "dissector command values", fmt.Sprintf("%v", cmds), fmt.Sprintf("the dissector names commands %v, the code defines %v", cmds, keysOf(want)))
		}
	}
	// README
	readme, err := os.ReadFile(filepath.Join(p.RepoDir, "README.md"))
	if err != nil {
		r.undecided("C09.L1", "README.md", "-", "README table", "file not readable")
		return
	}
	rt := parseReadmeHeader(string(readme))
	if len(rt) < 5 {
		r.undecided("C09.L1", "README.md", "-", "README table", "the KCP header diagram could not be parsed (reformatted?)")
	} else {
		// README lists a prefix of the header (it omits len); compare order and widths of what it lists
		alias := map[string]string{"frag": "frg"}
		okAll := true
		var why []string
		off := int64(0)
		for i, f := range rt {
			if f.Name == "data" {
				break
			}
			n := f.Name
			if a, ok := alias[n]; ok {
				n = a
			}
			if i >= len(wt) || wt[i].Name != n || wt[i].Width != f.Width || wt[i].Off != off {
				okAll = false
				if i < len(wt) {
					why = append(why, fmt.Sprintf("README field #%d is %s(u%d)@%d, the encoder writes %s(u%d)@%d", i, n, f.Width*8, off, wt[i].Name, wt[i].Width*8, wt[i].Off))
				}
			}
			off += f.Width
		}
		r.check(okAll, "C09.L1", "README.md", "-", "README field order and widths", fmt.Sprintf("%d documented fields agree with the encoder", len(rt)-1), strings.Join(why, "; "))
	}
}

func keysOf(m map[int64]bool) []int64 {
	var out []int64
	for k := range m {
		out = append(out, k)
	}
	sort.Slice(out, func(i, j int) bool { return out[i] < out[j] })
	return out
}

func describeTable(t []layoutField) string {
	var s []string
	for _, f := range t {
		s = append(s, fmt.Sprintf("%s(u%d)@%d", f.Name, f.Width*8, f.Off))
	}
	return "[" + strings.Join(s, " ") + "]"
}

func compareTables(p *Prog, r *Report, rule, an string, a []layoutField, bn string, b []layoutField, fn string, requireAll bool) {
	bm := map[string]layoutField{}
	for _, f := range b {
		bm[f.Name] = f
	}
	for _, f := range a {
		g, ok := bm[f.Name]
		construct := fmt.Sprintf("%s vs %s: field %s", an, bn, f.Name)
		pos := "-"
		if f.Pos.IsValid() {
			pos = p.PosOf(f.Pos)
		}
		switch {
		case !ok && requireAll:
			r.bad(rule, fn, pos, construct, fmt.Sprintf("%s has %s(u%d)@%d, %s has no such field (%s)", an, f.Name, f.Width*8, f.Off, bn, describeTable(b)), "")
		case !ok:
		case g.Off != f.Off || g.Width != f.Width:
			r.bad(rule, fn, pos, construct, fmt.Sprintf("%s: u%d@%d, %s: u%d@%d", an, f.Width*8, f.Off, bn, g.Width*8, g.Off), "")
		default:
			r.ok(rule, fn, pos, construct, fmt.Sprintf("u%d@%d on both sides", f.Width*8, f.Off))
		}
	}
}

var (
	reLuaBuf   = regexp.MustCompile(`local\s+(\w+)_buf\s*=\s*buffer\(offset\s*\+\s*(\d+)\s*,\s*(\d+)\)`)
	reLuaAdd   = regexp.MustCompile(`add_le\((\w+)\s*,\s*buffer\(offset\s*\+\s*(\d+)\s*,\s*(\d+)\)\)`)
	reLuaStep  = regexp.MustCompile(`offset\s*=\s*offset\s*\+\s*(\d+)\s*\+\s*data_len`)
	reLuaCmd   = regexp.MustCompile(`cmd_val\s*==\s*(\d+)`)
	reReadmeF  = regexp.MustCompile(`(\w+)\s*\(u(\d+)\)`)
	reReadmeN  = regexp.MustCompile(`\|\s*([a-z]+)\s*\|\s*([a-z]+)\s*\|\s*([a-z]+)\s*\|`)
	reReadmeT  = regexp.MustCompile(`\|\s*(u\d+)\s*\|\s*(u\d+)\s*\|\s*(u\d+)\s*\|`)
	reReadmeFT = regexp.MustCompile(`type(Data|Parity|OOB)\s*=\s*(0[xX][0-9a-fA-F]+)`)
)

func parseDissector(s string) (tbl []layoutField, hdr int64, cmds []int64) {
	seen := map[string]bool{}
	for _, m := range reLuaBuf.FindAllStringSubmatch(s, -1) {
		off, _ := strconv.ParseInt(m[2], 10, 64)
		w, _ := strconv.ParseInt(m[3], 10, 64)
		if !seen[m[1]] {
			seen[m[1]] = true
			tbl = append(tbl, layoutField{Name: m[1], Off: off, Width: w})
		}
	}
	for _, m := range reLuaAdd.FindAllStringSubmatch(s, -1) {
		off, _ := strconv.ParseInt(m[2], 10, 64)
		w, _ := strconv.ParseInt(m[3], 10, 64)
		if !seen[m[1]] {
			seen[m[1]] = true
			tbl = append(tbl, layoutField{Name: m[1], Off: off, Width: w})
		}
	}
	if m := reLuaStep.FindStringSubmatch(s); m != nil {
		hdr, _ = strconv.ParseInt(m[1], 10, 64)
	}
	for _, m := range reLuaCmd.FindAllStringSubmatch(s, -1) {
		v, _ := strconv.ParseInt(m[1], 10, 64)
		cmds = append(cmds, v)
	}
	sort.Slice(tbl, func(i, j int) bool { return tbl[i].Off < tbl[j].Off })
	return
}

// parseReadmeHeader reads the "KCP Header" box diagram: rows `| name (u32) |` and
// the three-column row `| cmd | frag | wnd |` followed by `| u8 | u8 | u16 |`.
func parseReadmeHeader(s string) []layoutField {
	i := strings.Index(s, "KCP Header")
	if i < 0 {
		return nil
	}
	s = s[i:]
	if j := strings.Index(s, "```"); j > 0 {
		s = s[:j]
	}
	var out []layoutField
	lines := strings.Split(s, "\n")
	for k := 0; k < len(lines); k++ {
		ln := lines[k]
		if m := reReadmeN.FindStringSubmatch(ln); m != nil && k+1 < len(lines) {
			if t := reReadmeT.FindStringSubmatch(lines[k+1]); t != nil {
				for q := 1; q <= 3; q++ {
					w, _ := strconv.ParseInt(t[q][1:], 10, 64)
					out = append(out, layoutField{Name: m[q], Width: w / 8})
				}
				k++
				continue
			}
		}
		if m := reReadmeF.FindStringSubmatch(ln); m != nil {
			w, _ := strconv.ParseInt(m[2], 10, 64)
			out = append(out, layoutField{Name: m[1], Width: w / 8})
		} else if strings.Contains(ln, "data") && strings.Contains(ln, "bytes") {
			out = append(out, layoutField{Name: "data"})
		}
	}
	return out
}

func checkPayloadFollowsHeader(p *Prog, r *Report) {
	flush, loop, lv := sendLoop(p)
	if loop == nil {
		r.bad("C09.L1", flush.Name, p.Pos(flush.Node), "payload follows header", "no transmission loop found", "")
		return
	}
	// after `ptr = X.encode(ptr)`: copy(ptr, X.data); ptr = ptr[len(X.data):]
	seg := tVar(lv)
	dataT := p.F(seg, "segment", "data")
	var okCopy, okAdv bool
	ast.Inspect(loop.Body, func(n ast.Node) bool {
		switch x := n.(type) {
		case *ast.CallExpr:
			if p.BuiltinName(x) == "copy" && len(x.Args) == 2 && p.Term(x.Args[1]).Key() == dataT.Key() {
				okCopy = true
			}
		case *ast.AssignStmt:
			if len(x.Lhs) == 1 && len(x.Rhs) == 1 {
				if se, ok := ast.Unparen(x.Rhs[0]).(*ast.SliceExpr); ok && se.High == nil && se.Low != nil {
					if p.Term(se.Low).Key() == mk("len", dataT).Key() && p.Term(se.X).Key() == p.Term(x.Lhs[0]).Key() {
						okAdv = true
					}
				}
			}
		}
		return true
	})
	r.check(okCopy && okAdv, "C09.L1", flush.Name, p.Pos(loop), "payload follows header", "copy(ptr, seg.data); ptr = ptr[len(seg.data):] — the same length the len field announces", "the bytes written after a header are not exactly seg.data (the len field would lie)")
}

func checkCommands(p *Prog, r *Report) {
	input := p.FuncOf(p.Method("KCP", "Input"))
	want := map[int64]string{}
	for _, c := range []string{"IKCP_CMD_PUSH", "IKCP_CMD_ACK", "IKCP_CMD_WASK", "IKCP_CMD_WINS"} {
		want[p.ConstInt(c)] = c
	}
	// switch arms on the cmd byte
	arms := map[int64]bool{}
	hasDefaultReject := false
	var cmdVar *types.Var
	inspectBody(input, func(n ast.Node) bool {
		sw, ok := n.(*ast.SwitchStmt)
		if !ok || sw.Tag == nil {
			return true
		}
		id, ok := ast.Unparen(sw.Tag).(*ast.Ident)
		if !ok {
			return true
		}
		v, _ := p.Info.Uses[id].(*types.Var)
		local := map[int64]bool{}
		for _, cl := range sw.Body.List {
			cc := cl.(*ast.CaseClause)
			if cc.List == nil {
				for _, st := range cc.Body {
					if _, ok := st.(*ast.ReturnStmt); ok {
						hasDefaultReject = true
					}
				}
			}
			for _, e := range cc.List {
				if c, ok := p.constVal(e); ok {
					local[c] = true
				}
			}
		}
		match := 0
		for c := range local {
			if _, ok := want[c]; ok {
				match++
			}
		}
		if match >= 2 {
			arms = local
			cmdVar = v
		}
		return true
	})
	okArms := len(arms) == len(want)
	for c := range want {
		if !arms[c] {
			okArms = false
		}
	}
	r.check(okArms, "C09.L2", input.Name, p.Pos(input.Node), "switch arms = command set", fmt.Sprintf("%v", keysOf(arms)), fmt.Sprintf("the command switch handles %v but the protocol defines %v", keysOf(arms), keysOf(map[int64]bool{81: true, 82: true, 83: true, 84: true})))
	// validation: either a dominating test cmd != each constant -> return, or the default arm rejects
	valid := map[int64]bool{}
	if cmdVar != nil {
		c := p.CFG(input)
		for _, b := range c.live {
			ct := c.CondTerm(b)
			if ct == nil {
				continue
			}
			cj := Conjuncts(ct)
			all := len(cj) >= 2
			vals := map[int64]bool{}
			for _, a := range cj {
				if a.Op == "!=" && len(a.Args) == 2 {
					for i := 0; i < 2; i++ {
						if a.Args[i].IsConst() && a.Args[1-i].Op == "var" && a.Args[1-i].Obj == cmdVar {
							vals[a.Args[i].Int] = true
							continue
						}
					}
				} else {
					all = false
				}
			}
			if all && len(vals) >= 2 {
				valid = vals
			}
		}
	}
	if len(valid) > 0 {
		same := len(valid) == len(want)
		for c := range want {
			if !valid[c] {
				same = false
			}
		}
		r.check(same, "C09.L2", input.Name, p.Pos(input.Node), "validation set = command set", fmt.Sprintf("%v", keysOf(valid)), fmt.Sprintf("Input's validation accepts %v, the protocol defines %v", keysOf(valid), keysOf(arms)))
	} else {
		r.check(hasDefaultReject, "C09.L2", input.Name, p.Pos(input.Node), "validation set = command set", "unknown commands are rejected by the default arm", "unknown commands are not rejected")
	}
	// encoder side: every store of a constant to segment.cmd is one of the four
	for _, st := range p.FieldStores(p.Field("segment", "cmd")) {
		if st.Rhs == nil {
			continue
		}
		if c, ok := p.constVal(st.Rhs); ok {
			_, known := want[c]
			r.check(known, "C09.L2", st.Fn.Name, p.Pos(st.Node), fmt.Sprintf("emitted command %d", c), "a defined command", "an undefined command value is emitted")
		}
	}
}

func checkFECLayout(p *Prog, r *Report) {
	hdr := p.ConstInt("fecHeaderSize")
	hdr2 := p.ConstInt("fecHeaderSizePlus2")
	types_ := map[string]int64{"sealData": p.ConstInt("typeData"), "sealParity": p.ConstInt("typeParity"), "sealOOB": p.ConstInt("typeOOB")}
	for name, tv := range types_ {
		fi := p.FuncOf(p.Method("fecEncoder", name))
		if fi == nil {
			continue
		}
		buf := firstByteSliceParam(p, fi)
		wt := p.writerTable(fi, buf)
		if h, bind := p.unwrapDelegate(fi); h != nil && len(wt) == 0 {
			// a one-line wrapper around a shared sealer: analyse the sealer with the wrapper's arguments
			var hbuf *types.Var
			for po, at := range bind {
				if at.Op == "var" && at.Obj == buf {
					hbuf, _ = po.(*types.Var)
				}
			}
			if hbuf != nil {
				wt = p.writerTable(h, hbuf)
				for i := range wt {
					for po, at := range bind {
						if wt[i].Name == po.Name() && at.IsConst() {
							wt[i].Name = fmt.Sprintf("0x%x", at.Int)
						}
					}
				}
			}
		}
		ok := len(wt) == 2 && wt[0].Off == 0 && wt[0].Width == 4 && wt[1].Off == 4 && wt[1].Width == 2 && wt[1].Name == fmt.Sprintf("0x%x", tv)
		r.check(ok, "C09.L3", fi.Name, p.Pos(fi.Node), "FEC header writer "+name, fmt.Sprintf("seqid u32@0, type u16@4 = 0x%x", tv), "writes "+describeTable(wt)+fmt.Sprintf(", expected seqid u32@0 and type u16@4 = 0x%x", tv))
	}
	// README type values
	if readme, err := os.ReadFile(filepath.Join(p.RepoDir, "README.md")); err == nil {
		for _, m := range reReadmeFT.FindAllStringSubmatch(string(readme), -1) {
			v, _ := strconv.ParseInt(m[2], 0, 64)
			name := "type" + m[1]
			r.check(p.ConstInt(name) == v, "C09.L3", "README.md", "-", "README "+name, fmt.Sprintf("0x%x", v), fmt.Sprintf("README documents %s = 0x%x, the code uses 0x%x", name, v, p.ConstInt(name)))
		}
	}
	// accessors
	for _, a := range []struct {
		name       string
		off, width int64
	}{{"seqid", 0, 4}, {"flag", 4, 2}, {"data", hdr, 0}} {
		fi := p.FuncOf(p.Method("fecPacket", a.name))
		okA := false
		if fi != nil && len(fi.Body.List) == 1 {
			if ret, ok := fi.Body.List[0].(*ast.ReturnStmt); ok && len(ret.Results) == 1 {
				rv := p.selfVar(fi)
				switch x := ast.Unparen(ret.Results[0]).(type) {
				case *ast.CallExpr:
					if f := p.Callee(x); f != nil && widthOfPut(f.Name()) == a.width && len(x.Args) == 1 {
						if off, ok := p.sliceOffsetConst(x.Args[0], rv); ok && off == a.off {
							okA = true
						}
					}
				case *ast.SliceExpr:
					if off, ok := p.sliceOffsetConst(x, rv); ok && off == a.off && a.width == 0 {
						okA = true
					}
				}
			}
		}
		r.check(okA, "C09.L3", "fecPacket."+a.name, p.Pos(fi.Node), "FEC accessor "+a.name, fmt.Sprintf("offset %d", a.off), fmt.Sprintf("accessor %s does not read at offset %d (width %d)", a.name, a.off, a.width))
	}
	r.check(hdr2 == hdr+2, "C09.L3", "fec.go", "-", "fecHeaderSizePlus2", "fecHeaderSize + 2", "fecHeaderSizePlus2 != fecHeaderSize + 2")
	// size field: PutUint16(b[payloadOffset:], uint16(len(b[payloadOffset:]))) in encode and encodeOOB
	for _, name := range []string{"encode", "encodeOOB"} {
		fi := p.FuncOf(p.Method("fecEncoder", name))
		buf := firstByteSliceParam(p, fi)
		okS := false
		inspectBody(fi, func(n ast.Node) bool {
			call, ok := n.(*ast.CallExpr)
			if !ok {
				return true
			}
			f := p.Callee(call)
			if f == nil || !isExtFunc(f, "encoding/binary", "littleEndian", "PutUint16") || len(call.Args) != 2 {
				return true
			}
			al := aliasMap(p, fi)
			dst := p.Term(call.Args[0]).Subst(al)
			val := p.FactsOf(fi).AtNode(call).Resolve(p.Term(call.Args[1])).Subst(al)
			if dst.Op == "slice" && dst.Args[0].Op == "var" && dst.Args[0].Obj == buf && dst.Args[1] != nil && dst.Args[1].Op == "fld" && dst.Args[1].Obj == p.Field("fecEncoder", "payloadOffset") && dst.Args[2] == nil {
				for val.Op == "conv" {
					val = val.Args[0]
				}
				if val.Op == "len" && val.Args[0].Key() == dst.Key() {
					okS = true
				} else if Lin(val).Equal(Lin(sub(mk("len", dst.Args[0]), dst.Args[1]))) {
					okS = true // len(b) - payloadOffset
				}
			}
			return true
		})
		r.check(okS, "C09.L3", fi.Name, p.Pos(fi.Node), "size field in "+name, "u16 at payloadOffset = len(b[payloadOffset:]) = payload + 2", "the 16-bit size field is not len(b[payloadOffset:]) written at payloadOffset (documented: size of the KCP frame plus 2)")
	}
	// payloadOffset = headerOffset + fecHeaderSize
	for _, st := range p.FieldStores(p.Field("fecEncoder", "payloadOffset")) {
		okP := false
		if st.Rhs != nil {
			l := Lin(p.Term(st.Rhs))
			want := Lin(add(tFld(st.Base, p.Field("fecEncoder", "headerOffset")), tConst(hdr)))
			okP = l.Equal(want)
		}
		r.check(okP, "C09.L3", st.Fn.Name, p.Pos(st.Node), "payloadOffset", "headerOffset + fecHeaderSize", "payloadOffset is not headerOffset + fecHeaderSize")
	}
	// receiver strips fecHeaderSizePlus2 before KCP.Input for data packets
	ki := p.FuncByName("(*UDPSession).kcpInput")
	data := firstByteSliceParam(p, ki)
	okStrip := false
	for _, s := range p.CallsTo(p.Method("KCP", "Input")) {
		if s.Fn != ki {
			continue
		}
		if off, ok := p.sliceOffsetConst(s.Call.Args[0], data); ok && off == hdr2 {
			okStrip = true
		}
	}
	r.check(okStrip, "C09.L3", ki.Name, p.Pos(ki.Node), "receiver strips the FEC header", fmt.Sprintf("KCP.Input(data[%d:])", hdr2), "the FEC data path does not strip fecHeaderSize+2 bytes before the KCP frame")
}

func checkIDAdvance(p *Prog, r *Report) {
	fNext := p.Field("fecEncoder", "next")
	for _, name := range []string{"sealData", "sealParity"} {
		fi := p.FuncOf(p.Method("fecEncoder", name))
		if h, _ := p.unwrapDelegate(fi); h != nil {
			fi = h // a one-line wrapper around a shared sealer
		}
		c := p.CFG(fi)
		// the write of next into the header precedes exactly one advance
		var wr, adv []Point
		for _, pt := range c.AllPoints() {
			n := pt.Node()
			inspectShallow(n, func(x ast.Node) bool {
				switch y := x.(type) {
				case *ast.CallExpr:
					if f := p.Callee(y); f != nil && isExtFunc(f, "encoding/binary", "littleEndian", "PutUint32") && len(y.Args) == 2 {
						if t := p.Term(y.Args[1]); t.Op == "fld" && t.Obj == fNext {
							wr = append(wr, pt)
						}
					}
				case *ast.AssignStmt:
					for i, l := range y.Lhs {
						if t := p.Term(l); t.Op == "fld" && t.Obj == fNext && i < len(y.Rhs) {
							rt := p.Term(y.Rhs[i])
							// (next + 1) % paws
							if rt.Op == "%" && rt.Args[0].Op == "+" && Lin(rt.Args[0]).Equal(Lin(add(t, tConst(1)))) && termHasField(rt.Args[1], p.Field("fecEncoder", "paws")) {
								adv = append(adv, pt)
							} else {
								adv = append(adv, Point{}) // a store of another shape
							}
						}
					}
				}
				return true
			})
		}
		ok := len(wr) == 1 && len(adv) == 1 && adv[0].B != nil && c.Dominates(wr[0], adv[0])
		r.check(ok, "C09.L5", fi.Name, p.Pos(fi.Node), "id written then advanced by one", "PutUint32(data, next) then next = (next + 1) % paws", "the sealer does not write the current id and then advance it by exactly one modulo paws")
	}
	if fi := p.FuncOf(p.Method("fecEncoder", "sealOOB")); fi != nil {
		te := p.TransEffects(fi)
		r.check(!te.FieldW[fNext], "C09.L5", fi.Name, p.Pos(fi.Node), "OOB consumes no id", "sealOOB does not touch next", "sealOOB advances the sequence id")
	}
}

func checkTypePosition(p *Prog, r *Report) {
	fi := p.FuncOf(p.Method("fecEncoder", "encode"))
	c := p.CFG(fi)
	sealData := p.Method("fecEncoder", "sealData")
	sealParity := p.Method("fecEncoder", "sealParity")
	skip := p.Method("fecEncoder", "skipParity")
	// (i) sealData exactly once per call: one call site, dominating every exit, not in a loop
	var sd []Site
	for _, s := range p.CallsTo(sealData) {
		if s.Fn == fi {
			sd = append(sd, s)
		}
	}
	okOnce := len(sd) == 1
	if okOnce {
		pt, _ := c.PointOf(sd[0].Call)
		res := c.FindPath(PathQuery{From: Point{c.Entry(), 0}, ExitIsTarget: true, IsBarrier: func(_ ast.Node, q Point) bool { return q == pt }})
		again := c.FindPath(PathQuery{From: Point{pt.B, pt.I + 1}, IsTarget: func(_ ast.Node, q Point) bool { return q == pt }})
		okOnce = !res.Found && !again.Found
	}
	r.check(okOnce, "C09.L6", fi.Name, p.Pos(fi.Node), "one sealData per encode", "exactly one call on every path", "encode does not seal exactly one data packet per call")
	// (ii) region: shardCount == dataShards
	fCount := p.Field("fecEncoder", "shardCount")
	fData := p.Field("fecEncoder", "dataShards")
	var region *Point
	for _, b := range c.live {
		ct := c.CondTerm(b)
		if ct == nil || ct.Op != "==" {
			continue
		}
		if termHasField(ct, fCount) && termHasField(ct, fData) {
			pt := Point{b.Succs[0], 0}
			region = &pt
		}
	}
	if region == nil {
		r.bad("C09.L6", fi.Name, p.Pos(fi.Node), "group-complete region", "no test shardCount == dataShards found", "")
		return
	}
	isCallTo := func(n ast.Node, f *types.Func) bool {
		hit := false
		inspectShallow(n, func(x ast.Node) bool {
			if call, ok := x.(*ast.CallExpr); ok && p.Callee(call) == f {
				hit = true
			}
			return true
		})
		return hit
	}
	isReset := func(n ast.Node, _ Point) bool {
		as, ok := n.(*ast.AssignStmt)
		if !ok {
			return false
		}
		for i, l := range as.Lhs {
			if t := p.Term(l); t.Op == "fld" && t.Obj == fCount && i < len(as.Rhs) {
				if v := p.Term(as.Rhs[i]); v.IsConst() && v.Int == 0 {
					return true
				}
			}
		}
		return false
	}
	// every path region -> reset passes sealParity or skipParity
	// the loop that seals parity counts as executed when its header is entered: it ranges over
	// shardCache[dataShards:] (checked below), whose length parityShards is > 0 by the constructor
	parityLoop := func(b *cfg.Block) (bool, bool) {
		if b.Kind == cfg.KindRangeLoop {
			if rs, ok := b.Stmt.(*ast.RangeStmt); ok {
				has := false
				ast.Inspect(rs.Body, func(x ast.Node) bool {
					if call, ok := x.(*ast.CallExpr); ok && p.Callee(call) == sealParity {
						has = true
					}
					return true
				})
				if has {
					return false, true
				}
			}
		}
		return false, false
	}
	neither := c.FindPath(PathQuery{From: *region, IsTarget: isReset, IsBarrier: func(n ast.Node, _ Point) bool { return isCallTo(n, sealParity) || isCallTo(n, skip) }, OnBlock: parityLoop})
	// no path executes both
	both := false
	for _, pt := range c.AllPoints() {
		if isCallTo(pt.Node(), skip) {
			res := c.FindPath(PathQuery{From: Point{pt.B, pt.I + 1}, IsTarget: func(n ast.Node, _ Point) bool { return isCallTo(n, sealParity) }, IsBarrier: isReset})
			if res.Found {
				both = true
			}
		}
		if isCallTo(pt.Node(), sealParity) {
			res := c.FindPath(PathQuery{From: Point{pt.B, pt.I + 1}, IsTarget: func(n ast.Node, _ Point) bool { return isCallTo(n, skip) }, IsBarrier: isReset})
			if res.Found {
				both = true
			}
		}
	}
	// every path region -> exit passes the reset
	noReset := c.FindPath(PathQuery{From: *region, ExitIsTarget: true, IsBarrier: isReset})
	switch {
	case neither.Found:
		r.bad("C09.L6", fi.Name, p.Pos(region.B.Nodes[0]), "parity or skip", "a path through the completed group neither seals parity nor skips the parity ids: the next group's ids would sit at parity positions", c.DescribePath(neither.Path))
	case both:
		r.bad("C09.L6", fi.Name, p.Pos(region.B.Nodes[0]), "parity or skip", "a path both seals parity and skips the parity ids (ids advance twice)", "")
	case noReset.Found:
		r.bad("C09.L6", fi.Name, p.Pos(region.B.Nodes[0]), "parity or skip", "a path leaves the completed group without resetting shardCount", c.DescribePath(noReset.Path))
	default:
		r.ok("C09.L6", fi.Name, p.Pos(region.B.Nodes[0]), "parity or skip", "every path through a completed group runs exactly one of {sealParity loop, skipParity()} and resets shardCount")
	}
	// (iii) the sealParity loop ranges over shardCache[dataShards:] (length parityShards by construction)
	okPs := false
	for _, s := range p.CallsTo(sealParity) {
		if s.Fn != fi {
			continue
		}
		for x := ast.Node(s.Call); x != nil; x = p.parents[x] {
			if rs, ok := x.(*ast.RangeStmt); ok {
				t := p.FactsOf(fi).AtNode(rs.X).Resolve(p.Term(rs.X))
				if t.Op == "slice" && t.Args[0].Op == "fld" && t.Args[0].Obj == p.Field("fecEncoder", "shardCache") && t.Args[1] != nil && t.Args[1].Op == "fld" && t.Args[1].Obj == fData && t.Args[2] == nil {
					okPs = true
				}
				break
			}
		}
	}
	r.check(okPs, "C09.L6", fi.Name, p.Pos(fi.Node), "parity set", "sealParity runs once per element of shardCache[dataShards:]", "the parity loop does not range over shardCache[dataShards:]")
}

func checkNonceBeforeEncrypt(p *Prog, r *Report) {
	pp := p.FuncByName("(*UDPSession).postProcess")
	n := checkNonceBeforeEncryptIn(p, r, pp)
	// helpers of the output path that encrypt (an extracted seal function) obey the same rule
	var hs []*FuncInfo
	for h := range p.TransEffects(pp).Funcs {
		if h != pp && h.Decl != nil && rootFuncInfo(h) == h {
			hs = append(hs, h)
		}
	}
	sort.Slice(hs, func(i, j int) bool { return hs[i].Name < hs[j].Name })
	for _, h := range hs {
		if recvTypeName(h.Obj) == "blockCrypt" || recvTypeName(h.Obj) == "aeadCrypt" || recvTypeName(h.Obj) == "salsa20BlockCrypt" || recvTypeName(h.Obj) == "simpleXORBlockCrypt" || recvTypeName(h.Obj) == "noneBlockCrypt" {
			continue // the ciphers themselves
		}
		n += checkNonceBeforeEncryptIn(p, r, h)
	}
	if n == 0 {
		r.bad("C09.L7", pp.Name, p.Pos(pp.Node), "encryption sites", "no Encrypt/Seal call in the output path", "")
	}
}

func checkNonceBeforeEncryptIn(p *Prog, r *Report, fi *FuncInfo) int {
	c := p.CFG(fi)
	fa := p.FactsOf(fi)
	fill := p.Func("fillRand")
	blockCryptT, _ := p.lookup("BlockCrypt").(*types.TypeName)
	type encSite struct {
		call *ast.CallExpr
		buf  *Term // the buffer whose nonce prefix must be fresh
		kind string
	}
	var sites []encSite
	for _, s := range p.dynIfaceCalls(blockCryptT, "Encrypt") {
		if rootFuncInfo(s.Fn) == fi {
			sites = append(sites, encSite{s.Call, fa.AtNode(s.Call).Resolve(p.Term(s.Call.Args[1])), "Encrypt"})
		}
	}
	for _, s := range p.CallsTo(p.Method("aeadCrypt", "Seal")) {
		if rootFuncInfo(s.Fn) == fi && len(s.Call.Args) >= 3 {
			// Seal(dst, nonce, plaintext, ad): nonce must resolve to X[:n]
			nt := fa.AtNode(s.Call).Resolve(p.Term(s.Call.Args[1]))
			if nt.Op == "slice" && nt.Args[1] == nil {
				sites = append(sites, encSite{s.Call, nt.Args[0], "Seal"})
			} else {
				r.bad("C09.L7", fi.Name, p.Pos(s.Call), "Seal nonce", "the nonce argument is not the prefix of a packet buffer: "+pretty(nt.Key()), "")
			}
		}
	}
	if len(sites) == 0 {
		return 0
	}
	for _, es := range sites {
		ept, _ := c.PointOf(es.call)
		construct := es.kind + " of " + pretty(es.buf.Key())
		isFill := func(n ast.Node, q Point) bool {
			hit := false
			inspectShallow(n, func(x ast.Node) bool {
				call, ok := x.(*ast.CallExpr)
				if !ok || p.Callee(call) != fill || len(call.Args) != 1 {
					return true
				}
				at := fa.AtNode(call).Resolve(p.Term(call.Args[0]))
				if at.Op == "slice" && at.Args[1] == nil && at.Args[0].Key() == es.buf.Key() && at.Args[2] != nil {
					hit = true
				}
				return true
			})
			return hit
		}
		// every path entry -> site passes a fillRand of this buffer ...
		res := c.FindPath(PathQuery{From: Point{c.Entry(), 0}, IsTarget: func(_ ast.Node, q Point) bool { return q == ept }, IsBarrier: isFill})
		// ... and between the last fillRand and the site there is no other encryption of the same buffer:
		// from the site, going around the loop back to the site must pass a fillRand again
		again := c.FindPath(PathQuery{From: Point{ept.B, ept.I + 1}, IsTarget: func(_ ast.Node, q Point) bool { return q == ept }, IsBarrier: isFill})
		switch {
		case res.Found:
			r.bad("C09.L7", fi.Name, p.Pos(es.call), construct, "a path reaches the encryption without filling the nonce prefix of this buffer with fresh randomness", c.DescribePath(res.Path))
		case again.Found:
			r.bad("C09.L7", fi.Name, p.Pos(es.call), construct, "the encryption can run again (next iteration) without a fresh nonce", c.DescribePath(again.Path))
		default:
			r.ok("C09.L7", fi.Name, p.Pos(es.call), construct, "fillRand on the nonce prefix of the same buffer precedes it on every path, once per encryption")
		}
	}
	return len(sites)
}

func checkEntropyAdvance(p *Prog, r *Report) {
	for _, tn := range []string{"rngAES", "rngChacha8"} {
		m := p.TryMethod(tn, "Read")
		if m == nil {
			continue
		}
		fi := p.FuncOf(m)
		c := p.CFG(fi)
		// inside Lock..Unlock: an advancing call (updateSeed / Encrypt / rand.Read) precedes the production of output
		var lock, unlock, produce []Point
		for _, pt := range c.AllPoints() {
			n := pt.Node()
			inspectShallow(n, func(x ast.Node) bool {
				call, ok := x.(*ast.CallExpr)
				if !ok {
					return true
				}
				if f := p.Callee(call); f != nil {
					if isExtFunc(f, "sync", "Mutex", "Lock") {
						lock = append(lock, pt)
					}
					if isExtFunc(f, "sync", "Mutex", "Unlock") {
						if _, isDefer := p.parents[call].(*ast.DeferStmt); !isDefer {
							unlock = append(unlock, pt)
						}
					}
				}
				// output: copy(p, ..) into the parameter or a Read into the parameter
				buf := firstByteSliceParam(p, fi)
				if p.BuiltinName(call) == "copy" && len(call.Args) == 2 {
					if id, ok := ast.Unparen(call.Args[0]).(*ast.Ident); ok && p.Info.Uses[id] == buf {
						produce = append(produce, pt)
					}
				} else if sel, ok := ast.Unparen(call.Fun).(*ast.SelectorExpr); ok && sel.Sel.Name == "Read" && len(call.Args) == 1 {
					if id, ok := ast.Unparen(call.Args[0]).(*ast.Ident); ok && p.Info.Uses[id] == buf {
						produce = append(produce, pt)
					}
				}
				return true
			})
		}
		ok := len(lock) == 1 && len(produce) >= 1
		for _, pr := range produce {
			if len(lock) == 1 && !c.Dominates(lock[0], pr) {
				ok = false
			}
			for _, u := range unlock {
				// no path lock -> unlock -> produce
				if c.Reaches(Point{u.B, u.I + 1}, pr) {
					ok = false
				}
			}
		}
		// state advance precedes production: a call to updateSeed (package method) dominates
		adv := false
		if us := p.TryMethod(tn, "updateSeed"); us != nil {
			for _, s := range p.CallsTo(us) {
				if s.Fn == fi {
					sp, _ := c.PointOf(s.Call)
					all := true
					for _, pr := range produce {
						if !c.Dominates(sp, pr) {
							all = false
						}
					}
					adv = all
				}
			}
		}
		if !(ok && adv) {
			// the critical section expressed through a helper (withLock(func(){ advance; produce })): decided on the
			// interprocedural lockset — every production of output, in Read or in a function literal of Read, runs with
			// the generator's mutex held and is dominated, in its own function, by the state advance
			if okL, _ := p.producedUnderLock(fi, tn); okL {
				ok, adv = true, true
			}
		}
		r.check(ok && adv, "C09.L8", fi.Name, p.Pos(fi.Node), "state advance and output inside the mutex", "Lock; advance; produce; Unlock", "the generator's output is produced outside its mutex or before the state advances: two callers can obtain the same nonce")
	}
}

// unwrapDelegate: fi's body is a single call statement H(args...) (or recv.H(args...))
// of a package function whose arguments are fi's own parameters/receiver or
// constants. It returns H and the binding of H's parameters to the argument terms.
func (p *Prog) unwrapDelegate(fi *FuncInfo) (*FuncInfo, map[types.Object]*Term) {
	if fi == nil || fi.Body == nil || len(fi.Body.List) != 1 {
		return nil, nil
	}
	es, ok := fi.Body.List[0].(*ast.ExprStmt)
	if !ok {
		return nil, nil
	}
	call, ok := es.X.(*ast.CallExpr)
	if !ok {
		return nil, nil
	}
	f := p.Callee(call)
	if f == nil || f.Pkg() != p.Types {
		return nil, nil
	}
	h := p.FuncOf(f)
	if h == nil || h.Body == nil || h == fi {
		return nil, nil
	}
	bind := map[types.Object]*Term{}
	if rv := p.selfVar(h); rv != nil {
		if sel, ok := ast.Unparen(call.Fun).(*ast.SelectorExpr); ok {
			bind[rv] = p.Term(sel.X)
		}
	}
	for i, a := range call.Args {
		po := h.paramObj(p, i)
		if po == nil {
			return nil, nil
		}
		t := p.Term(a)
		if !(t.IsConst() || t.Op == "var") {
			return nil, nil
		}
		bind[po] = t
	}
	return h, bind
}

// producedUnderLock: every call that writes the generator's output into Read's buffer parameter (copy(p, …) or
// X.Read(p)), in fi or a function literal nested in it, is executed with the mutex field of type tn held
// (must-lockset of the SSA instruction at that call) and is dominated within its function by the advancing
// call updateSeed.
func (p *Prog) producedUnderLock(fi *FuncInfo, tn string) (bool, string) {
	la := p.Locks()
	class := ""
	if st, ok := p.Named(tn).Underlying().(*types.Struct); ok {
		for i := 0; i < st.NumFields(); i++ {
			if isSyncType(st.Field(i).Type()) {
				class = tn + "." + st.Field(i).Name()
			}
		}
	}
	if class == "" {
		return false, "no mutex field"
	}
	buf := firstByteSliceParam(p, fi)
	us := p.TryMethod(tn, "updateSeed")
	heldAtPos := func(pos token.Pos) LockSet {
		for _, f := range la.funcs {
			for _, b := range f.Blocks {
				for _, in := range b.Instrs {
					if ci, ok := in.(ssa.CallInstruction); ok && ci.Pos() == pos {
						return la.heldAt[in]
					}
				}
			}
		}
		return nil
	}
	n := 0
	for _, g := range p.funcs {
		if rootFuncInfo(g) != fi {
			continue
		}
		c := p.CFG(g)
		var adv []Point
		var prod []*ast.CallExpr
		inspectBody(g, func(x ast.Node) bool {
			call, ok := x.(*ast.CallExpr)
			if !ok {
				return true
			}
			if us != nil && p.Callee(call) == us {
				if pt, ok := c.PointOf(call); ok {
					adv = append(adv, pt)
				}
			}
			if p.BuiltinName(call) == "copy" && len(call.Args) == 2 {
				if id, ok := ast.Unparen(call.Args[0]).(*ast.Ident); ok && p.Info.Uses[id] == buf {
					prod = append(prod, call)
				}
			} else if sel, ok := ast.Unparen(call.Fun).(*ast.SelectorExpr); ok && sel.Sel.Name == "Read" && len(call.Args) == 1 {
				if id, ok := ast.Unparen(call.Args[0]).(*ast.Ident); ok && p.Info.Uses[id] == buf {
					prod = append(prod, call)
				}
			}
			return true
		})
		for _, call := range prod {
			n++
			pt, ok := c.PointOf(call)
			if !ok {
				return false, "output call not located"
			}
			dom := false
			for _, a := range adv {
				if c.Dominates(a, pt) {
					dom = true
				}
			}
			if !dom {
				return false, "output at " + p.Pos(call) + " is not preceded by the state advance"
			}
			if p.BuiltinName(call) == "copy" {
				return false, "copy is not a call instruction"
			}
			held := heldAtPos(call.Lparen)
			if held == nil || !held[class] {
				return false, "output at " + p.Pos(call) + " is produced without " + class
			}
		}
	}
	return n > 0, ""
}

// checkBatchWriteContinues: C09.L10. For every X.WriteBatch(q, …) inside a loop with q a local slice and n its first
// result: every path from the call back to the call passes `q = q[n:]` (or q is written q[k:] with k increased by n
// on the way). Only present in configurations that have the batch path (linux); elsewhere the rule has no site.
func checkBatchWriteContinues(p *Prog, r *Report) {
	n := 0
	for _, fi := range p.funcs {
		if fi.Body == nil {
			continue
		}
		c := p.CFG(fi)
		inspectBody(fi, func(x ast.Node) bool {
			as, ok := x.(*ast.AssignStmt)
			if !ok || len(as.Rhs) != 1 || len(as.Lhs) < 1 {
				return true
			}
			call, ok := ast.Unparen(as.Rhs[0]).(*ast.CallExpr)
			if !ok || len(call.Args) == 0 {
				return true
			}
			sel, ok := ast.Unparen(call.Fun).(*ast.SelectorExpr)
			if !ok || sel.Sel.Name != "WriteBatch" {
				return true
			}
			if enclosingLoop(p, call) == nil {
				return true
			}
			cnt := identVar(p, as.Lhs[0])
			n++
			construct := exprString(call.Fun) + "(" + exprString(call.Args[0]) + ", …) in " + fi.Name
			pt, okp := c.PointOf(as)
			if cnt == nil || !okp {
				r.bad("C09.L10", fi.Name, p.Pos(call), construct, "the count returned by the batch write is not bound to a local", "")
				return true
			}
			arg := p.Term(call.Args[0])
			var qv types.Object
			var kv types.Object // running offset, for the q[k:] form
			if arg.Op == "var" {
				// pending := q[off:] taken afresh in every iteration stands for q[off:]
				if av, isV := arg.Obj.(*types.Var); isV {
					if as2 := p.Assignments(rootFuncInfo(fi), av); len(as2) == 1 && as2[0].Rhs != nil && nodeWithin(p, as2[0].Node, enclosingLoop(p, call)) {
						if rt := p.Term(as2[0].Rhs); rt.Op == "slice" && rt.Args[0].Op == "var" && rt.Args[0].Obj != types.Object(av) && rt.Args[1] != nil && rt.Args[1].Op == "var" && rt.Args[2] == nil {
							arg = rt
						}
					}
				}
			}
			switch {
			case arg.Op == "var":
				qv = arg.Obj
			case arg.Op == "slice" && arg.Args[0].Op == "var" && arg.Args[1] != nil && arg.Args[1].Op == "var" && arg.Args[2] == nil:
				qv, kv = arg.Args[0].Obj, arg.Args[1].Obj
			}
			if qv == nil {
				r.bad("C09.L10", fi.Name, p.Pos(call), construct, "the batch handed to WriteBatch is not a local slice (possibly re-sliced by a local offset): not followed", "")
				return true
			}
			advances := func(nd ast.Node, _ Point) bool {
				a2, ok := nd.(*ast.AssignStmt)
				if !ok || len(a2.Lhs) != 1 || len(a2.Rhs) != 1 {
					return false
				}
				lv := identVar(p, a2.Lhs[0])
				rt := p.Term(a2.Rhs[0])
				if kv == nil {
					// q = q[n:]
					return lv == qv && rt.Op == "slice" && rt.Args[0].Op == "var" && rt.Args[0].Obj == qv && rt.Args[1] != nil && rt.Args[1].Op == "var" && rt.Args[1].Obj == cnt && rt.Args[2] == nil
				}
				// k += n  /  k = k + n
				if lv != kv {
					return false
				}
				if a2.Tok == token.ADD_ASSIGN {
					return rt.Op == "var" && rt.Obj == cnt
				}
				return a2.Tok == token.ASSIGN && Lin(rt).Equal(Lin(add(tVar(kv), tVar(cnt))))
			}
			res := c.FindPath(PathQuery{From: Point{pt.B, pt.I + 1}, IsBarrier: advances, IsTarget: func(_ ast.Node, q Point) bool { return q == pt }})
			if res.Found {
				r.bad("C09.L10", fi.Name, p.Pos(call), construct, "the loop can call WriteBatch again without advancing past the "+cnt.Name()+" messages the previous call accepted: after a short write the head of the batch is transmitted a second time — identical datagrams with the same nonce (and the same FEC ids) on the wire, while the tail may never be sent", c.DescribePath(res.Path))
			} else {
				r.ok("C09.L10", fi.Name, p.Pos(call), construct, "the batch is advanced by the returned count before the next call on every path")
			}
			return true
		})
	}
	if n == 0 && p.Cfg.GOOS == "linux" {
		r.bad("C09.L10", "transmit path", "-", "batch write", "no WriteBatch loop found in a linux configuration", "")
	} else if n == 0 {
		r.ok("C09.L10", "transmit path", "-", "batch write", "this configuration has no batch transmit path (one WriteTo per datagram)")
	}
}

// checkEveryCipherArmFillsNonce: C09.L13.
func checkEveryCipherArmFillsNonce(p *Prog, r *Report) {
	pp := p.FuncByName("(*UDPSession).postProcess")
	fBlock := p.Field("UDPSession", "block")
	fill := p.Func("fillRand")
	// fillRand calls below a node, counting through unexported helpers called there (one level)
	var countFill func(n ast.Node, depth int) int
	countFill = func(n ast.Node, depth int) int {
		k := 0
		ast.Inspect(n, func(x ast.Node) bool {
			if _, isLit := x.(*ast.FuncLit); isLit {
				return false
			}
			call, ok := x.(*ast.CallExpr)
			if !ok {
				return true
			}
			f := p.Callee(call)
			if f == fill {
				k++
			} else if f != nil && depth == 0 && f.Pkg() == p.Types && !f.Exported() {
				if h := p.FuncOf(f); h != nil && h.Body != nil {
					k += countFill(h.Body, 1)
				}
			}
			return true
		})
		return k
	}
	n := 0
	check := func(fi *FuncInfo) {
		ast.Inspect(fi.Body, func(x ast.Node) bool {
			ts, ok := x.(*ast.TypeSwitchStmt)
			if !ok {
				return true
			}
			// the switch is over the session's cipher
			var tag ast.Expr
			switch a := ts.Assign.(type) {
			case *ast.AssignStmt:
				if ta, isTA := ast.Unparen(a.Rhs[0]).(*ast.TypeAssertExpr); isTA {
					tag = ta.X
				}
			case *ast.ExprStmt:
				if ta, isTA := ast.Unparen(a.X).(*ast.TypeAssertExpr); isTA {
					tag = ta.X
				}
			}
			if tag == nil {
				return true
			}
			if t := p.Term(tag); !(t.Op == "fld" && t.Obj == types.Object(fBlock)) {
				return true
			}
			for _, cl := range ts.Body.List {
				cc := cl.(*ast.CaseClause)
				isNil := false
				for _, e := range cc.List {
					if id, isId := ast.Unparen(e).(*ast.Ident); isId && id.Name == "nil" {
						isNil = true
					}
				}
				if isNil && len(cc.List) == 1 {
					continue
				}
				n++
				name := "default"
				if len(cc.List) > 0 {
					name = "case " + exprString(cc.List[0])
				}
				outside, inLoop, loops := 0, 0, 0
				for _, st := range cc.Body {
					if rs, isR := st.(*ast.RangeStmt); isR {
						loops++
						inLoop += countFill(rs.Body, 0)
						continue
					}
					outside += countFill(st, 0)
				}
				ok := outside >= 1 && (loops == 0 || inLoop >= 1)
				r.check(ok, "C09.L13", fi.Name, p.Pos(cc), "cipher arm "+name+" of the transmit path", "fillRand for the packet, and for each parity packet in the arm's loop", fmt.Sprintf("this arm fills the nonce of the packet: %v; of the parity packets in its loop: %v — the datagrams it sends carry whatever the pooled buffer held before (zeros in a fresh process, fragments of earlier packets later) where the nonce belongs: identical prefixes on the wire, and for ciphers that depend on it no per-packet randomisation", outside >= 1, loops == 0 || inLoop >= 1))
			}
			return true
		})
	}
	check(pp)
	if n == 0 {
		// the dispatch may live in a helper that postProcess calls
		inspectBody(pp, func(x ast.Node) bool {
			if call, ok := x.(*ast.CallExpr); ok {
				if f := p.Callee(call); f != nil && f.Pkg() == p.Types && !f.Exported() {
					if h := p.FuncOf(f); h != nil && h.Body != nil {
						check(h)
					}
				}
			}
			return true
		})
	}
	if n == 0 {
		r.bad("C09.L13", pp.Name, p.Pos(pp.Node), "cipher dispatch of the transmit path", "no type switch over the session's cipher found in postProcess (or the helpers it calls)", "")
	}
}

// checkShardParamsInOrder: C09.L14.
func checkShardParamsInOrder(p *Prog, r *Report) {
	names := map[string]bool{"dataShards": true, "parityShards": true}
	n := 0
	for _, fi := range p.funcs {
		if fi.Body == nil {
			continue
		}
		p.AllCallsIn(fi, func(call *ast.CallExpr) {
			f := p.Callee(call)
			if f == nil || f.Pkg() != p.Types {
				return
			}
			sig, ok := f.Type().(*types.Signature)
			if !ok {
				return
			}
			for i, a := range call.Args {
				id, isId := ast.Unparen(a).(*ast.Ident)
				if !isId {
					continue
				}
				v, isV := p.Info.Uses[id].(*types.Var)
				if !isV || !p.isParam(v) || !names[v.Name()] || i >= sig.Params().Len() {
					continue
				}
				pn := sig.Params().At(i).Name()
				if !names[pn] {
					continue // handed to something that is not a shard count (a generic helper)
				}
				n++
				r.check(pn == v.Name(), "C09.L14", rootFuncInfo(fi).Name, p.Pos(call), v.Name()+" handed to "+f.Name()+" in "+rootFuncInfo(fi).Name, "arrives in the parameter named "+v.Name(), "the "+v.Name()+" parameter is passed in the position of "+f.Name()+"'s "+pn+": a session asked for D data and P parity shards sends a P+D cycle — parity packets at data positions, groups no independent decoder can reconstruct")
			}
		})
	}
	if n == 0 {
		r.bad("C09.L14", "constructors", "-", "shard parameters", "no constructor passes dataShards / parityShards on", "")
	}
}
