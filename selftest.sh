#!/bin/bash
# selftest.sh <Cxx> — checker validation (thorough tier), both directions, on scratch copies of /repo
# outside /repo and /verif that are removed afterwards:
#   (1) every seeded breakage that belongs to the property (mutants/<Cxx>-*.patch, and the independently
#       seeded changes seeded/*/patch.diff whose meta.json names the property or lists it under
#       also_detected_by) must be reported as a VIOLATION of the property;
#   (2) every behaviour-preserving edit in benign/*.patch must leave the check silent (exit 0).
# A patch that no longer applies to the current tree is skipped (the tree under test may have been edited).
# A miss in (1) or an alarm in (2) makes the self-test fail with exit 2 (the checker regressed) — never a
# VIOLATION of the property.
set -u
cd "$(dirname "$0")"
PROP="${1:?property id}"
REPO="${VERIF_REPO:-/repo}"
OUT=evidence/selftest
mkdir -p "$OUT"
export GOFLAGS=-mod=mod GOPROXY=off GOSUMDB=off GOTOOLCHAIN=local GOWORK=off
export PATH=/opt/veriftools/go1.26.8/bin:$PATH
export PROP REPO VERIF_DIR="$(pwd)"
JOBS="${SELFTEST_JOBS:-6}"

breaking=()
declared=()
for f in mutants/${PROP}-*.patch; do [ -f "$f" ] && breaking+=("$f"); done
for d in seeded/*/; do
  [ -f "$d/meta.json" ] || continue
  if grep -q "\"property\": *\"$PROP\"" "$d/meta.json" || grep -q "\"also_detected_by\":.*\"$PROP\"" "$d/meta.json"; then
    if grep -q '"not_decided_statically"' "$d/meta.json"; then
      # a confirmed breakage whose meta.json declares, with the reason, that no static rule in reach decides it:
      # it is run and reported, but a miss is the declared outcome and does not fail the self-test
      [ -f "$d/patch.diff" ] && declared+=("${d}patch.diff")
    else
      [ -f "$d/patch.diff" ] && breaking+=("${d}patch.diff")
    fi
  fi
done
benign=()
for f in benign/*.patch; do [ -f "$f" ] && benign+=("$f"); done

run_one() { # kind patch -> one JSON line on stdout
  kind="$1"; pf="$2"
  tmp=$(mktemp -d /tmp/kcpverif-st.XXXXXX)
  rsync -a --exclude .git "$REPO"/ "$tmp"/repo/
  if ! (cd "$tmp/repo" && patch -p1 -s --no-backup-if-mismatch < "$VERIF_DIR/$pf") >/dev/null 2>&1; then
    echo "{\"kind\":\"$kind\",\"patch\":\"$pf\",\"result\":\"skipped (does not apply to the current tree)\"}"
    rm -rf "$tmp"; return
  fi
  log=$("$VERIF_DIR"/bin/kcpverif -prop "$PROP" -tier quick -repo "$tmp/repo" -verif "$VERIF_DIR" -evidence "$tmp/ev" 2>&1); rc=$?
  rules=$(echo "$log" | grep -o '\[C[0-9]*\.[A-Za-z0-9]*\]' | sort -u | tr -d '[]' | tr '\n' ' ')
  if [ "$kind" = declared ]; then
    if [ $rc -eq 1 ] && echo "$log" | grep -q "^VIOLATION property=$PROP"; then
      echo "{\"kind\":\"$kind\",\"patch\":\"$pf\",\"result\":\"detected\",\"rules\":\"$rules\"}"
    else
      echo "{\"kind\":\"$kind\",\"patch\":\"$pf\",\"result\":\"not detected (declared out of reach of the static rules, see its meta.json)\"}"
    fi
  elif [ "$kind" = breaking ]; then
    if [ $rc -eq 1 ] && echo "$log" | grep -q "^VIOLATION property=$PROP"; then
      echo "{\"kind\":\"$kind\",\"patch\":\"$pf\",\"result\":\"detected\",\"rules\":\"$rules\"}"
    else
      echo "{\"kind\":\"$kind\",\"patch\":\"$pf\",\"result\":\"MISSED (exit $rc)\"}"
    fi
  else
    if [ $rc -eq 0 ]; then
      echo "{\"kind\":\"$kind\",\"patch\":\"$pf\",\"result\":\"silent\"}"
    else
      echo "{\"kind\":\"$kind\",\"patch\":\"$pf\",\"result\":\"FALSE-ALARM (exit $rc)\",\"rules\":\"$rules\"}"
    fi
  fi
  rm -rf "$tmp"
}
export -f run_one

res=$(mktemp /tmp/kcpverif-st-res.XXXXXX)
{
  for pf in "${breaking[@]:-}"; do [ -n "$pf" ] && echo "breaking $pf"; done
  for pf in "${declared[@]:-}"; do [ -n "$pf" ] && echo "declared $pf"; done
  for pf in "${benign[@]:-}"; do [ -n "$pf" ] && echo "benign $pf"; done
} | xargs -P "$JOBS" -L 1 bash -c 'run_one "$0" "$1"' > "$res"

python3 - "$res" "$PROP" "$OUT/$PROP.json" <<'EOF'
import json, sys
rows = [json.loads(l) for l in open(sys.argv[1]) if l.strip()]
prop = sys.argv[2]
br = sorted([r for r in rows if r["kind"] == "breaking"], key=lambda r: r["patch"])
bn = sorted([r for r in rows if r["kind"] == "benign"], key=lambda r: r["patch"])
dc = sorted([r for r in rows if r["kind"] == "declared"], key=lambda r: r["patch"])
det = sum(r["result"] == "detected" for r in br)
mis = [r for r in br if r["result"].startswith("MISSED")]
skp = sum(r["result"].startswith("skipped") for r in br)
sil = sum(r["result"] == "silent" for r in bn)
fal = [r for r in bn if r["result"].startswith("FALSE-ALARM")]
bskp = sum(r["result"].startswith("skipped") for r in bn)
out = {"property": prop, "patches": len(br), "detected": det, "missed": len(mis), "skipped": skp,
       "results": [{k: v for k, v in r.items() if k != "kind"} for r in br],
       "declared_out_of_reach": [{k: v for k, v in r.items() if k != "kind"} for r in dc],
       "benign_edits": len(bn), "benign_silent": sil, "benign_false_alarms": len(fal), "benign_skipped": bskp,
       "benign_results": [{k: v for k, v in r.items() if k != "kind"} for r in bn if r["result"] != "silent"]}
json.dump(out, open(sys.argv[3], "w"), indent=1)
for r in mis: print(f"SELFTEST-MISSED property={prop} patch={r['patch']} {r['result']}")
for r in fal: print(f"SELFTEST-FALSE-ALARM property={prop} patch={r['patch']} rules={r.get('rules','')}")
for r in dc: print(f"SELFTEST-DECLARED property={prop} patch={r['patch']} {r['result']}")
print(f"selftest {prop}: breaking patches={len(br)} detected={det} missed={len(mis)} skipped={skp}; declared out of reach={len(dc)}; benign edits={len(bn)} silent={sil} false-alarms={len(fal)} skipped={bskp}")
sys.exit(2 if mis or fal else 0)
EOF
rc=$?
rm -f "$res"
exit $rc
