#!/bin/bash
# selftest.sh <Cxx> — checker validation (thorough tier): every seeded breakage of the
# real tree that belongs to the property must be reported as a VIOLATION, in a scratch
# copy of /repo outside /repo and /verif that is removed afterwards. A patch that no
# longer applies to the current tree is skipped (the tree under test may have been
# edited); a patch that applies but is not detected makes the self-test fail (exit 2:
# the checker regressed — never a VIOLATION of the property).
set -u
cd "$(dirname "$0")"
PROP="${1:?property id}"
REPO="${VERIF_REPO:-/repo}"
OUT=evidence/selftest
mkdir -p "$OUT"
export GOFLAGS=-mod=mod GOPROXY=off GOSUMDB=off GOTOOLCHAIN=local GOWORK=off
export PATH=/opt/veriftools/go1.26.8/bin:$PATH
patches=()
for f in mutants/${PROP}-*.patch; do [ -f "$f" ] && patches+=("$f"); done
for d in seeded/*/; do
  [ -f "$d/meta.json" ] || continue
  if grep -q "\"property\": *\"$PROP\"" "$d/meta.json" || grep -q "\"also_detected_by\":.*\"$PROP\"" "$d/meta.json"; then
    [ -f "$d/patch.diff" ] && patches+=("$d/patch.diff")
  fi
done
detected=0; missed=0; skipped=0; results=()
for pf in "${patches[@]}"; do
  tmp=$(mktemp -d /tmp/kcpverif-mut.XXXXXX)
  rsync -a --exclude .git "$REPO"/ "$tmp"/repo/
  if ! (cd "$tmp/repo" && patch -p1 -s --no-backup-if-mismatch < "$OLDPWD/$pf") >/dev/null 2>&1; then
    skipped=$((skipped+1)); results+=("{\"patch\":\"$pf\",\"result\":\"skipped (does not apply to the current tree)\"}")
    rm -rf "$tmp"; continue
  fi
  log=$(./bin/kcpverif -prop "$PROP" -tier quick -repo "$tmp/repo" -verif "$(pwd)" -evidence "$tmp/ev" 2>&1)
  rc=$?
  rules=$(echo "$log" | grep -o '\[C[0-9]*\.[A-Za-z0-9]*\]' | sort -u | tr -d '[]' | tr '\n' ' ')
  if [ $rc -eq 1 ] && echo "$log" | grep -q "^VIOLATION property=$PROP"; then
    detected=$((detected+1)); results+=("{\"patch\":\"$pf\",\"result\":\"detected\",\"rules\":\"$rules\"}")
  else
    missed=$((missed+1)); results+=("{\"patch\":\"$pf\",\"result\":\"MISSED (exit $rc)\"}")
    echo "SELFTEST-MISSED property=$PROP patch=$pf exit=$rc"
  fi
  rm -rf "$tmp"
done
( IFS=,; echo "{\"property\":\"$PROP\",\"patches\":${#patches[@]},\"detected\":$detected,\"missed\":$missed,\"skipped\":$skipped,\"results\":[${results[*]:-}]}" ) > "$OUT/$PROP.json"
echo "selftest $PROP: patches=${#patches[@]} detected=$detected missed=$missed skipped=$skipped"
[ $missed -eq 0 ] || exit 2
exit 0
