#!/bin/bash
# run.sh <Cxx> <quick|thorough> — decide one property on /repo's current working tree.
# Nothing is cached between runs: every invocation loads and type-checks /repo again.
set -u
cd "$(dirname "$0")"
export GOFLAGS=-mod=mod GOPROXY=off GOSUMDB=off GOTOOLCHAIN=local GOWORK=off
export PATH=/opt/veriftools/go1.26.8/bin:$PATH
unset GOOS GOARCH CGO_ENABLED
PROP="${1:?property id}"
TIER="${2:-${VERIF_TIER:-quick}}"
REPO="${VERIF_REPO:-/repo}"
if [ ! -x bin/kcpverif ] || [ -n "$(find checker -newer bin/kcpverif -name '*.go' -print -quit 2>/dev/null)" ]; then
  (cd checker && go build -o ../bin/kcpverif .) || { echo "BROKEN-CHECK: cannot build kcpverif"; exit 2; }
fi
strc=0
if [ "$TIER" = "thorough" ] && [ -x ./selftest.sh ]; then
  # checker validation first, so that its result is part of the evidence written below
  ./selftest.sh "$PROP"; strc=$?
fi
./bin/kcpverif -prop "$PROP" -tier "$TIER" -repo "$REPO" -verif "$(pwd)"
rc=$?
if [ $rc -eq 0 ] && [ $strc -ne 0 ]; then rc=2; fi
exit $rc
