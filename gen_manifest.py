#!/usr/bin/env python3
"""Regenerates MANIFEST.json from the table below (kept valid at all times)."""
import json, sys
BASE = "cd /repo && go test -vet=off -count=1 -timeout 25m ./..."
# property -> (technique, level text, level note, design ref)
CLAIMED = json.load(open("/verif/claims.json"))
ALL = ["C%02d" % i for i in range(1, 21)]
checks = []
na = []
for pid in ALL:
    c = CLAIMED.get(pid)
    if c and c.get("claimed"):
        checks.append({
            "property_id": pid,
            "quick_cmd": "./run.sh %s quick" % pid,
            "thorough_cmd": "./run.sh %s thorough" % pid,
            "evidence_file": "/verif/evidence/%s.json" % pid,
            "replay_cmd_template": "cat {path}",
            "engine": "kcpverif",
            "level_claimed": {"category": "other", "text": c["level_text"], "design_ref": "DESIGN.md section 5, " + pid},
            "level_note": c["level_note"],
            "technique": c["technique"],
        })
    else:
        na.append({"property_id": pid, "reason": (c or {}).get("reason", "static check for this property is not built yet (work in progress; see DESIGN.md section 5 for the planned structural clauses)")})
m = {
    "version": 1,
    "setup_cmd": "./setup.sh",
    "hooks": {"guard": "verif", "enable": "none needed: the analysis reads /repo's source; no instrumentation is compiled in", "baseline_off_cmd": BASE, "source_commits": [], "add_only": True},
    "engines": [{"name": "kcpverif", "path": "/verif/checker", "serves_properties": [c["property_id"] for c in checks],
                 "kind_free_text": "repository-specific static analyzer (go/types + go/cfg + go/ssa + VTA call graph): guard dominance by must-facts dataflow, interprocedural must-lockset, mod/ref effects, ordering/pairing on the CFG, layout-table extraction, typestate"}],
    "checks": checks,
    "not_applicable": na,
    "notes": "Technique family: static analysis. Every claimed check decides structural necessary conditions of its property on all CFG paths of /repo's current source (level 'other'); what each check does not decide is listed in DESIGN.md section 7 and in level_note. quick = linux64 (+ the configuration a rule needs); thorough = all four build configurations plus the checker self-test on seeded breakages (mutants/, seeded/).",
}
json.dump(m, open("/verif/MANIFEST.json", "w"), indent=1)
print("claimed:", [c["property_id"] for c in checks])
