#!/bin/bash
# Build the analyzer from files on disk only (offline).
set -e
cd "$(dirname "$0")"
export GOFLAGS=-mod=mod GOPROXY=off GOSUMDB=off GOTOOLCHAIN=local GOWORK=off
export PATH=/opt/veriftools/go1.26.8/bin:$PATH
mkdir -p bin evidence
(cd checker && go build -o ../bin/kcpverif .)
echo "kcpverif built: $(ls -la bin/kcpverif | awk '{print $5}') bytes"
