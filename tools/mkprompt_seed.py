#!/usr/bin/env python3
import json, sys, glob, os, re
prop, wave = sys.argv[1], sys.argv[2]
name = f"{prop}-{wave}"
tmpl = open(os.path.join(os.path.dirname(os.path.abspath(__file__)), 'seed_prompt_template.txt') if os.path.exists(os.path.join(os.path.dirname(os.path.abspath(__file__)), 'seed_prompt_template.txt')) else '/tmp/wt-out/prompt_C05-w3.txt').read()
P = None
for l in open('/verif/properties.jsonl'):
    d = json.loads(l)
    if d['id'] == prop: P = d
taken = []
for d in sorted(glob.glob(f'/verif/seeded/{prop}-*/')):
    slug = os.path.basename(d.rstrip('/'))[4:]
    h = open(d + 'notes.md').readline().strip().lstrip('# ').strip() if os.path.exists(d + 'notes.md') else ''
    if not h or len(h) < 10:
        m = json.load(open(d + 'meta.json'))
        h = m.get('summary') or m.get('needs_to_manifest', '')[:160]
    taken.append(f"- {slug}: {h[:220]}")
i = tmpl.index('THE PROPERTY (this is everything you are given):')
j = tmpl.index('ALREADY TAKEN')
k = tmpl.index('YOUR TASK:')
head = tmpl[:i].replace('C05-w3', name)
body = f"""THE PROPERTY (this is everything you are given):

id: {P['id']}
title: {P['title']}
statement: {P['statement']}
quantifier: {P['quantifier']['text']}
why the existing tests cannot settle it: {P['why_tests_cant']}
where the mechanism lives (anchors): {json.dumps(P['anchors'])}

"""
tk = """ALREADY TAKEN (earlier rounds produced these changes for this property; yours must use DIFFERENT code sites and DIFFERENT mechanisms, and should explore clauses, configurations and code paths of the property that these do not touch — e.g. other build variants (non-Linux read/transmit loops in readloop_generic.go / tx_generic.go, 32-bit int), other API entry points and option setters, other cipher/FEC configurations, constants and sizes that two sites must agree on, error paths, two cooperating sites that each look harmless alone):
""" + "\n".join(taken) + "\n\n"
tail = tmpl[k:].replace('C05-w3', name).replace('TestSeededC05Change', f'TestSeeded{prop}{wave.upper()}Change')
tail = tail.replace("Leave the worktree clean", "Do NOT use `git stash` (the stash is shared with other worktrees of the same repository); to revert use `git diff > file` and `git checkout -- .`. Leave the worktree clean")
open(f'/tmp/wt-out/prompt_{name}.txt', 'w').write(head + body + tk + tail)
print(len(head + body + tk + tail))
