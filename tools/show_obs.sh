#!/bin/bash
# show_obs.sh <Cxx> [rule] — list all obligations of a quick run (debugging aid)
cd /verif; tmp=$(mktemp -d); ./bin/kcpverif -prop "$1" -tier quick -evidence $tmp > /dev/null 2>&1
python3 - "$tmp/$1.json" "${2:-}" <<'PY'
import json,sys
ev=json.load(open(sys.argv[1]))
PY
rm -rf $tmp
