#!/usr/bin/env python3
"""Regenerate the generated blocks of DESIGN.md (rule catalogue from the evidence files,
detection matrix from seeded/MATRIX.json)."""
import json, glob, os, re
root = os.path.dirname(os.path.dirname(os.path.abspath(__file__)))
s = open(root + "/DESIGN.md").read()
rules = []
for f in sorted(glob.glob(root + "/evidence/C??.json")):
    d = json.load(open(f))
    c = d["coverage"]
    per = c.get("per_rule", {})
    rules.append(f"**{d['property_id']}** — {c.get('obligations', '?')} obligations over {len(c.get('configurations', []))} configuration(s) in the last {d['tier']} run\n")
    rules.append("| rule | must hold | floor |\n|---|---|---|")
    for r in c.get("rules", []):
        txt = r['text'].replace('|', '&#124;')
        rules.append(f"| {r['id']} | {txt} | {r['floor']} |")
    rules.append("")
blk = "\n".join(rules)
s = re.sub(r"<!-- BEGIN:RULES -->.*?<!-- END:RULES -->", "<!-- BEGIN:RULES -->\n" + blk.replace("\\", "\\\\") + "\n<!-- END:RULES -->", s, flags=re.S)
m = json.load(open(root + "/seeded/MATRIX.json"))
rows = ["| seeded change | own check: rules that fire | other checks that fire |", "|---|---|---|"]
for sid, v in sorted(m.items()):
    if "property" not in v:
        rows.append(f"| {sid} | {v.get('status')} | |"); continue
    own = ", ".join(v["detected_by_own_check"]) or "**not reported**"
    oth = "; ".join(f"{p} ({', '.join(r)})" for p, r in sorted(v["detected_by_other_checks"].items()))
    rows.append(f"| {sid} | {own} | {oth} |")
s = re.sub(r"<!-- BEGIN:MATRIX -->.*?<!-- END:MATRIX -->", "<!-- BEGIN:MATRIX -->\n" + "\n".join(rows) + "\n<!-- END:MATRIX -->", s, flags=re.S)
open(root + "/DESIGN.md", "w").write(s)
print("DESIGN.md tables regenerated:", len(m), "seeds")
