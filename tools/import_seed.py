#!/usr/bin/env python3
"""import_seed.py <prop> <changeN> <short-slug> — copy a confirmed seeded change into /verif/seeded/<prop>-<slug>/."""
import json, os, shutil, sys, re
srcname, change, slug = sys.argv[1:4]
prop = srcname[:3]
src = f"/tmp/wt-out/{srcname}/{change}"
conf = json.load(open(f"/tmp/confirm-out/{srcname}-{change}.json"))
assert conf.get("confirmed"), conf
dst = f"/verif/seeded/{prop}-{slug}"
os.makedirs(dst, exist_ok=True)
shutil.copy(src + "/patch.diff", dst + "/patch.diff")
shutil.copy(src + "/demo_test.go", dst + "/demo_test.go")
notes = open(src + "/notes.md").read() if os.path.exists(src + "/notes.md") else ""
open(dst + "/notes.md", "w").write(notes)
meta = {
  "id": f"{prop}-{slug}",
  "property": prop,
  "origin": "independent sub-agent given only the property text and its own scratch worktree",
  "needs_to_manifest": "see notes.md (author's description)",
  "confirmed_by_me": {
     "how": "tools/confirm_seed.sh in a fresh scratch worktree of /repo HEAD, tests inside a private network namespace (unshare -n)",
     "with_change": {"go build ./...": "ok", "full existing suite (go test -vet=off -count=1 ./...)": "pass (exit %d)" % conf["suite_exit_with_change"], "demo": "FAIL (exit %d)" % conf["demo_exit_with_change"]},
     "without_change": {"demo": "pass (exit %d)" % conf["demo_exit_without_change"]},
  },
  "detected_by": [],
}
json.dump(meta, open(dst + "/meta.json", "w"), indent=1)
print("imported", dst)
