#!/bin/bash
# matrix.sh [seed-dir-glob] — run every property's quick check against every seeded change
# (scratch copy of /repo outside /repo and /verif, removed afterwards) and record which
# checks report a violation. Writes /verif/seeded/MATRIX.json and updates the
# detected_by / also_detected_by fields of each seeded/*/meta.json.
set -u
cd "$(dirname "$0")/.."
export GOFLAGS=-mod=mod GOPROXY=off GOSUMDB=off GOTOOLCHAIN=local GOWORK=off
export PATH=/opt/veriftools/go1.26.8/bin:$PATH
PROPS=$(python3 -c "import json;print(' '.join(sorted(k for k,v in json.load(open('claims.json')).items() if v.get('claimed'))))")
GLOB="${1:-seeded/*/}"
out=$(mktemp /tmp/kcpverif-matrix.XXXXXX)
run_one() {
  d="$1"; id=$(basename "$d")
  [ -f "$d/patch.diff" ] || return
  tmp=$(mktemp -d /tmp/kcpverif-mx.XXXXXX)
  rsync -a --exclude .git /repo/ "$tmp/repo/"
  if ! (cd "$tmp/repo" && patch -p1 -s --no-backup-if-mismatch < "$OLDPWD/$d/patch.diff") >/dev/null 2>&1; then
    echo "$id SKIP" ; rm -rf "$tmp"; return
  fi
  line="$id"
  for P in $PROPS; do
    log=$(./bin/kcpverif -prop "$P" -tier quick -repo "$tmp/repo" -verif "$(pwd)" -evidence "$tmp/ev" 2>&1); rc=$?
    if [ $rc -eq 1 ] && echo "$log" | grep -q "^VIOLATION property=$P"; then
      rules=$(echo "$log" | grep -o "\[$P\.[A-Za-z0-9]*\]" | sort -u | tr -d '[]' | tr '\n' ',' | sed 's/,$//')
      line="$line $P:$rules"
    elif [ $rc -ne 0 ]; then
      line="$line $P:EXIT$rc"
    fi
  done
  echo "$line"
  rm -rf "$tmp"
}
export -f run_one; export PROPS
ls -d $GLOB | xargs -P 6 -I{} bash -c 'run_one {}' > "$out"
sort "$out" > "$out.s"
python3 - "$out.s" <<'EOF'
import json, sys, os
rows = {}
for l in open(sys.argv[1]):
    parts = l.split()
    if not parts: continue
    rows[parts[0]] = parts[1:]
mpath = "seeded/MATRIX.json"
matrix = json.load(open(mpath)) if os.path.exists(mpath) else {}
for sid, det in rows.items():
    if det == ["SKIP"]:
        matrix[sid] = {"status": "patch does not apply to the current tree"}; continue
    d = {}
    for x in det:
        p, _, rules = x.partition(":")
        d[p] = rules.split(",") if rules else []
    meta_p = f"seeded/{sid}/meta.json"
    meta = json.load(open(meta_p))
    own = meta["property"]
    meta["detected_by"] = sorted(r for r in d.get(own, []))
    meta["also_detected_by"] = sorted(p for p in d if p != own)
    meta["detected"] = bool(d)
    json.dump(meta, open(meta_p, "w"), indent=1)
    matrix[sid] = {"property": own, "detected_by_own_check": d.get(own, []), "detected_by_other_checks": {p: r for p, r in d.items() if p != own}}
json.dump(matrix, open(mpath, "w"), indent=1, sort_keys=True)
miss = [s for s, v in matrix.items() if "property" in v and not v["detected_by_own_check"]]
print("seeds:", len(matrix), "missed by own check:", miss)
print("not detected by any:", [s for s, v in matrix.items() if "property" in v and not v["detected_by_own_check"] and not v["detected_by_other_checks"]])
EOF
rm -f "$out" "$out.s"
