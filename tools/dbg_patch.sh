#!/bin/bash
# dbg_patch.sh <patch> <Cxx> [grep-pattern] — run one check with KV_DEBUG=1 against a scratch copy of /repo with the patch applied.
set -eu
PATCH=$(readlink -f "$1"); P="$2"; PAT="${3:-DEBUG}"
tmp=$(mktemp -d /tmp/kcpverif-dbg.XXXXXX)
[ -n "$tmp" ] && [ -d "$tmp" ] || { echo "mktemp failed"; exit 3; }
trap 'rm -rf "$tmp"' EXIT
mkdir "$tmp/repo"
rsync -a --exclude .git /repo/ "$tmp/repo/"
(cd "$tmp/repo" && patch -p1 -s --no-backup-if-mismatch < "$PATCH")
export GOFLAGS=-mod=mod GOPROXY=off GOSUMDB=off GOTOOLCHAIN=local GOWORK=off PATH=/opt/veriftools/go1.26.8/bin:$PATH
KV_DEBUG=1 /verif/bin/kcpverif -prop "$P" -tier quick -repo "$tmp/repo" -verif /verif -evidence "$tmp/ev" 2>&1 | grep -A3 "$PAT" | head -30 || true
