#!/usr/bin/env python3
"""mkmut.py <spec.py> — (re)generate mutant patches under /verif/mutants from a spec.

The spec is a Python file defining MUTANTS = [(name, file, old, new), ...]; each mutant
replaces exactly one occurrence of `old` by `new` in `file` of a scratch copy of /repo
(outside /repo and /verif), must still `go build`, and is written as a unified diff.
Scratch copies are removed afterwards."""
import os, subprocess, sys, shutil, tempfile, runpy
spec = runpy.run_path(sys.argv[1])
only = sys.argv[2:] 
env = dict(os.environ, GOFLAGS="-mod=mod", GOPROXY="off", GOTOOLCHAIN="local", PATH="/opt/veriftools/go1.26.8/bin:" + os.environ["PATH"])
tmp = tempfile.mkdtemp(prefix="kcpverif-mkmut.")
try:
    subprocess.check_call(["rsync", "-a", "--exclude", ".git", "/repo/", tmp + "/a/"])
    for name, file, old, new in spec["MUTANTS"]:
        if only and not any(o in name for o in only):
            continue
        out = os.environ.get("OUTDIR", "/verif/mutants") + "/%s.patch" % name
        b = tmp + "/b"
        shutil.rmtree(b, ignore_errors=True)
        shutil.copytree(tmp + "/a", b)
        p = os.path.join(b, file)
        s = open(p).read()
        if s.count(old) != 1:
            print("SPEC-ERROR %s: old text occurs %d times in %s" % (name, s.count(old), file)); continue
        open(p, "w").write(s.replace(old, new))
        r = subprocess.run(["go", "build", "./..."], cwd=b, env=env, capture_output=True, text=True)
        if r.returncode != 0:
            print("DOES-NOT-BUILD %s: %s" % (name, r.stderr.strip()[:300])); continue
        d = subprocess.run(["diff", "-ruN", "a/" + file, "b/" + file], cwd=tmp, capture_output=True, text=True).stdout
        open(out, "w").write(d)
        print("ok %s" % name)
finally:
    shutil.rmtree(tmp, ignore_errors=True)
