#!/bin/bash
# try_patch.sh <patch.diff> <Cxx> [Cyy ...] — run checks against a scratch copy of /repo with the patch applied.
set -u
PATCH="$1"; shift
tmp=$(mktemp -d /tmp/kcpverif-try.XXXXXX)
rsync -a --exclude .git /repo/ "$tmp/repo/"
(cd "$tmp/repo" && patch -p1 -s --no-backup-if-mismatch < "$PATCH") || { echo "patch does not apply"; rm -rf "$tmp"; exit 3; }
export GOFLAGS=-mod=mod GOPROXY=off GOSUMDB=off GOTOOLCHAIN=local GOWORK=off PATH=/opt/veriftools/go1.26.8/bin:$PATH
for P in "$@"; do
  out=$(/verif/bin/kcpverif -prop "$P" -tier quick -repo "$tmp/repo" -verif /verif -evidence "$tmp/ev" 2>&1); rc=$?
  echo "== $P exit=$rc"; echo "$out" | grep -v "^VIOLATION\|^    witness" | grep "\[C\|BROKEN\|ANCHOR\|panic\|UNDECIDED" | cut -c1-330 | head -${MAXL:-6}
done
rm -rf "$tmp"
