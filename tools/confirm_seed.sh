#!/bin/bash
# confirm_seed.sh <srcdir> <id> — confirm a seeded change independently in a scratch worktree:
#   with the change: builds, demo FAILS, full existing suite PASSES; without it: demo PASSES.
# srcdir holds patch.diff and demo_test.go. Result: /tmp/confirm-out/<id>.json. The worktree is removed.
set -u
SRC="$1"; ID="$2"
WT=/tmp/confirm/$ID
OUT=/tmp/confirm-out; mkdir -p $OUT /tmp/confirm
rm -rf "$WT"; git -C /repo worktree prune
git -C /repo worktree add --detach "$WT" HEAD >/dev/null 2>&1 || { echo "{\"id\":\"$ID\",\"error\":\"worktree\"}" > $OUT/$ID.json; exit 1; }
cd "$WT"
res() { echo "$1" > $OUT/$ID.json; cd /; git -C /repo worktree remove --force "$WT"; exit 0; }
git apply "$SRC/patch.diff" || res "{\"id\":\"$ID\",\"error\":\"patch does not apply\"}"
go build ./... > $OUT/$ID.build.log 2>&1 || res "{\"id\":\"$ID\",\"error\":\"does not build\"}"
# full suite without the demo
unshare -n sh -c 'ip link set lo up; go test -vet=off -count=1 -timeout 25m ./...' > $OUT/$ID.suite.log 2>&1; suite=$?
cp "$SRC/demo_test.go" ./zz_seeded_demo_test.go
unshare -n sh -c 'ip link set lo up; go test -vet=off -count=1 -timeout 5m -run "TestSeeded" .' > $OUT/$ID.demo_with.log 2>&1; with=$?
git checkout -- . 
unshare -n sh -c 'ip link set lo up; go test -vet=off -count=1 -timeout 5m -run "TestSeeded" .' > $OUT/$ID.demo_without.log 2>&1; without=$?
rm -f ./zz_seeded_demo_test.go
ok=false; [ $suite -eq 0 ] && [ $with -ne 0 ] && [ $without -eq 0 ] && ok=true
res "{\"id\":\"$ID\",\"suite_exit_with_change\":$suite,\"demo_exit_with_change\":$with,\"demo_exit_without_change\":$without,\"confirmed\":$ok}"
