#!/bin/bash
# rebase_patch.sh <patch> — re-generate a seeded/benign/mutant patch whose context went stale after a "fix:" commit in /repo:
# apply with fuzz in a scratch worktree of /repo HEAD (outside /repo and /verif), check that it builds, and rewrite the
# patch as a clean `git diff` against HEAD. The change itself is not altered.
set -eu
PF=$(readlink -f "$1")
W=$(mktemp -d /tmp/kcpverif-rebase.XXXXXX)
git -C /repo worktree add --detach "$W/wt" >/dev/null 2>&1
trap 'git -C /repo worktree remove --force "$W/wt" >/dev/null 2>&1; rm -rf "$W"' EXIT
cd "$W/wt"
patch -p1 -s -F3 --no-backup-if-mismatch < "$PF"
find . -name '*.orig' -o -name '*.rej' | grep -q . && { echo "leftovers"; exit 1; }
go build ./... 
git diff > "$PF"
echo "rebased $PF ($(grep -c '^@@' "$PF") hunks)"
