#!/bin/bash
# benign.sh [name-filter] — apply every behaviour-preserving edit in /verif/benign/*.patch to a scratch
# copy of /repo and run every claimed property's quick check on it: all must exit 0 (silent).
set -u
cd "$(dirname "$0")/.."
export GOFLAGS=-mod=mod GOPROXY=off GOSUMDB=off GOTOOLCHAIN=local GOWORK=off
export PATH=/opt/veriftools/go1.26.8/bin:$PATH
PROPS=$(python3 -c "import json;print(' '.join(sorted(k for k,v in json.load(open('claims.json')).items() if v.get('claimed'))))")
export PROPS
run_one() {
  pf="$1"; id=$(basename "$pf" .patch)
  tmp=$(mktemp -d /tmp/kcpverif-bn.XXXXXX)
  rsync -a --exclude .git /repo/ "$tmp/repo/"
  if ! (cd "$tmp/repo" && patch -p1 -s --no-backup-if-mismatch < "$OLDPWD/$pf") >/dev/null 2>&1; then echo "$id SKIP"; rm -rf "$tmp"; return; fi
  line="$id"
  for P in $PROPS; do
    log=$(./bin/kcpverif -prop "$P" -tier quick -repo "$tmp/repo" -verif "$(pwd)" -evidence "$tmp/ev" 2>&1); rc=$?
    if [ $rc -ne 0 ]; then
      rules=$(echo "$log" | grep -o "\[$P\.[A-Za-z0-9]*\]" | sort -u | tr -d '[]' | tr '\n' ',' | sed 's/,$//')
      line="$line $P:rc$rc:$rules"
    fi
  done
  echo "$line"
  rm -rf "$tmp"
}
export -f run_one
ls benign/*.patch | grep -E "${1:-.}" | xargs -P 6 -I{} bash -c 'run_one {}' | sort
